#!/bin/sh
# Offline setup: make sure Hypothesis is importable by /venv/bin/python (installs into /verif/.deps if not).
cd "$(dirname "$0")" || exit 2
if /venv/bin/python -c "import hypothesis" 2>/dev/null; then
  echo "hypothesis already importable"
else
  PIP_NO_INDEX=1 /venv/bin/pip install --no-index --find-links /opt/veriftools/wheels --target "$PWD/.deps" hypothesis || exit 2
fi
PYTHONPATH="$PWD/.deps" /venv/bin/python -c "import hypothesis; print('hypothesis', hypothesis.__version__)" || exit 2
mkdir -p evidence replays
