#!/bin/sh
# Offline setup: make sure Hypothesis is importable by /venv/bin/python (installs into /verif/.deps if not).
cd "$(dirname "$0")" || exit 2
if /venv/bin/python -c "import hypothesis" 2>/dev/null; then
  echo "hypothesis already importable"
else
  PIP_NO_INDEX=1 /venv/bin/pip install --no-index --find-links /opt/veriftools/wheels --target "$PWD/.deps" hypothesis || exit 2
fi
PYTHONPATH="$PWD/.deps" /venv/bin/python -c "import hypothesis; print('hypothesis', hypothesis.__version__)" || exit 2
# atheris (coverage-guided fuzzing of the unit-string parsers, C18); the check degrades gracefully without it
if ! PYTHONPATH="$PWD/.deps" /venv/bin/python -c "import atheris" 2>/dev/null; then
  PIP_NO_INDEX=1 /venv/bin/pip install --no-index --find-links /opt/veriftools/wheels --target "$PWD/.deps" atheris >/dev/null 2>&1 || echo "atheris not installed (C18 fuzz part will be skipped)"
fi
PYTHONPATH="$PWD/.deps" /venv/bin/python -c "import atheris; print('atheris ok')" 2>/dev/null || true
mkdir -p evidence replays
