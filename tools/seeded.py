#!/usr/bin/env python3
"""Seeded-change tooling.

  tools/seeded.py import <PID> <agent_worktree>       copy _seeded/{1,2} of a sub-agent worktree to seeded/<PID>-<n>/
  tools/seeded.py verify [name ...]                   confirm each change myself in a scratch worktree of /repo HEAD:
                                                      patch applies, repo suite still passes, demo fails with / passes without
  tools/seeded.py run [name ...] [--tier quick]       run the property's check (and --also other checks) against each change
                                                      (scratch copy of the package + patch, VERIF_REPO/VERIF_OUT pointing at it)
Results are stored in seeded/<name>/meta.json (verify) and seeded_report.json (run).
"""
import argparse, json, os, shutil, subprocess, sys, tempfile, time
from concurrent.futures import ThreadPoolExecutor
ROOT = os.path.dirname(os.path.dirname(os.path.abspath(__file__)))
REPO = "/repo"
SEEDED = os.path.join(ROOT, "seeded")
PY = "/venv/bin/python"


def names(sel):
    all_ = sorted(d for d in os.listdir(SEEDED) if os.path.exists(os.path.join(SEEDED, d, "patch.diff")))
    if not sel:
        return all_
    return [n for n in all_ if any(n == s or n.startswith(s) for s in sel)]


def load_meta(n):
    p = os.path.join(SEEDED, n, "meta.json")
    return json.load(open(p)) if os.path.exists(p) else {}


def save_meta(n, m):
    json.dump(m, open(os.path.join(SEEDED, n, "meta.json"), "w"), indent=1)


def cmd_import(pid, wt, tag=""):
    for k in ("1", "2", "3"):
        src = os.path.join(wt, "_seeded", k)
        if not os.path.exists(os.path.join(src, "patch.diff")):
            continue
        name = f"{pid}-{tag}{k}"
        dst = os.path.join(SEEDED, name)
        os.makedirs(dst, exist_ok=True)
        for f in ("patch.diff", "demo.py", "notes.md"):
            if os.path.exists(os.path.join(src, f)):
                shutil.copy(os.path.join(src, f), dst)
        m = load_meta(name)
        m.update({"property": pid, "source": "independent sub-agent given only the property text and a scratch worktree"})
        notes = os.path.join(dst, "notes.md")
        if os.path.exists(notes):
            m["needs_to_manifest"] = open(notes).read()[:1500]
        save_meta(name, m)
        print("imported", name)


def verify_one(n):
    d = os.path.join(SEEDED, n)
    wt = tempfile.mkdtemp(prefix="pybc_sv_")
    os.rmdir(wt)
    out = {"verified_at_repo_head": subprocess.run(["git", "-C", REPO, "rev-parse", "--short", "HEAD"], capture_output=True, text=True).stdout.strip()}
    try:
        subprocess.run(["git", "-C", REPO, "worktree", "add", "-q", "--detach", wt, "HEAD"], check=True, capture_output=True)
        env = dict(os.environ, PYBC_ROOT=wt)
        env.pop("PYBC_VERIF", None)
        demo = os.path.join(d, "demo.py")
        r0 = subprocess.run([PY, demo], cwd=wt, env=env, capture_output=True, text=True, timeout=1800)
        out["demo_exit_without_patch"] = r0.returncode
        ap = subprocess.run(["git", "apply", "--3way", os.path.join(d, "patch.diff")], cwd=wt, capture_output=True, text=True)
        if ap.returncode != 0:
            ap = subprocess.run(["git", "apply", os.path.join(d, "patch.diff")], cwd=wt, capture_output=True, text=True)
        out["patch_applies"] = ap.returncode == 0
        if ap.returncode != 0:
            out["apply_error"] = ap.stderr[-500:]
            return n, out
        r1 = subprocess.run([PY, demo], cwd=wt, env=env, capture_output=True, text=True, timeout=1800)
        out["demo_exit_with_patch"] = r1.returncode
        out["demo_tail_with_patch"] = (r1.stdout + r1.stderr)[-400:]
        t = subprocess.run([PY, "-m", "pytest", "-q", "-p", "no:cacheprovider", "tests"], cwd=wt, capture_output=True, text=True, timeout=3600)
        tail = t.stdout.strip().splitlines()[-1] if t.stdout.strip() else ""
        out["suite_with_patch"] = tail
        out["suite_passes_with_patch"] = ("108 passed" in tail) and ("failed" not in tail)
        out["confirmed"] = bool(out["suite_passes_with_patch"] and r0.returncode == 0 and r1.returncode != 0)
        out["ran"] = ["demo.py on clean worktree", "git apply patch.diff", "demo.py with patch", "pytest -q tests with patch"]
    finally:
        subprocess.run(["git", "-C", REPO, "worktree", "remove", "--force", wt], capture_output=True)
        shutil.rmtree(wt, ignore_errors=True)
    return n, out


def run_one(n, props, tier, procs):
    d = os.path.join(SEEDED, n)
    scratch = tempfile.mkdtemp(prefix="pybc_sr_")
    res = []
    try:
        # scratch copy of the current working tree of /repo (package only) + the patch
        shutil.copytree(os.path.join(REPO, "py_ballisticcalc"), os.path.join(scratch, "py_ballisticcalc"),
                        ignore=shutil.ignore_patterns("__pycache__"))
        if os.path.exists(os.path.join(REPO, ".pybc.toml")):
            shutil.copy(os.path.join(REPO, ".pybc.toml"), scratch)
        ap = subprocess.run(["patch", "-p1", "--no-backup-if-mismatch", "-i", os.path.join(d, "patch.diff")], cwd=scratch, capture_output=True, text=True)
        if ap.returncode != 0:
            return [{"name": n, "status": "patch-does-not-apply", "err": (ap.stdout + ap.stderr)[-300:]}]
        for p in props:
            env = dict(os.environ, VERIF_REPO=scratch, VERIF_OUT=scratch, VERIF_PROCS=str(procs), VERIF_NOSHRINK="1")
            t0 = time.time()
            pr = subprocess.run([os.path.join(ROOT, "check"), p, "--tier", tier], capture_output=True, text=True, env=env)
            keys = [l.split("key=", 1)[1].split(": ", 1)[0] for l in pr.stdout.splitlines() if l.startswith("violation key=")]
            res.append({"name": n, "check": p, "exit": pr.returncode, "caught": pr.returncode == 1, "keys": keys[:6],
                        "wall_s": round(time.time() - t0, 1), "tier": tier,
                        "tail": pr.stdout.strip().splitlines()[-2:] if pr.returncode == 2 else []})
    finally:
        shutil.rmtree(scratch, ignore_errors=True)
    return res


def main():
    ap = argparse.ArgumentParser()
    ap.add_argument("cmd", choices=["import", "verify", "run"])
    ap.add_argument("args", nargs="*")
    ap.add_argument("--tier", default="quick")
    ap.add_argument("--also", default="", help="comma list of further property checks to run against each change")
    ap.add_argument("--jobs", type=int, default=4)
    ap.add_argument("--procs", type=int, default=4)
    a = ap.parse_args()
    if a.cmd == "import":
        cmd_import(a.args[0], a.args[1], a.args[2] if len(a.args) > 2 else "")
    elif a.cmd == "verify":
        with ThreadPoolExecutor(max_workers=a.jobs) as ex:
            for n, out in ex.map(verify_one, names(a.args)):
                m = load_meta(n)
                m.update(out)
                save_meta(n, m)
                print(n, {k: out.get(k) for k in ("patch_applies", "demo_exit_without_patch", "demo_exit_with_patch", "suite_with_patch", "confirmed")})
    else:
        built = {f[:-3].upper() for f in os.listdir(os.path.join(ROOT, "vf", "props")) if f.startswith("c") and f.endswith(".py")}
        jobs = []
        for n in names(a.args):
            m = load_meta(n)
            props = [m.get("property")] + [p for p in a.also.split(",") if p]
            props = [p for p in dict.fromkeys(props) if p in built]
            if props:
                jobs.append((n, props))
        rp = os.path.join(ROOT, "seeded_report.json")
        rep = json.load(open(rp)) if os.path.exists(rp) else {}
        with ThreadPoolExecutor(max_workers=a.jobs) as ex:
            for res in ex.map(lambda j: run_one(j[0], j[1], a.tier, a.procs), jobs):
                for r in res:
                    print(json.dumps(r))
                    if "check" in r:
                        rep[f"{r['name']}|{r['check']}"] = r
        json.dump(rep, open(rp, "w"), indent=1, sort_keys=True)


if __name__ == "__main__":
    main()
