#!/usr/bin/env python3
"""Regenerates MANIFEST.json from the per-property metadata in vf/props/*.py (MANIFEST dicts)."""
import importlib, json, os, sys
ROOT = os.path.dirname(os.path.dirname(os.path.abspath(__file__)))
sys.path.insert(0, ROOT)
os.chdir(ROOT)
ALL = [f"C{i:02d}" for i in range(1, 21)]
checks, na = [], []
for pid in ALL:
    path = os.path.join(ROOT, "vf", "props", pid.lower() + ".py")
    if not os.path.exists(path):
        na.append({"property_id": pid, "reason": "check not built yet (work in progress; property-based check planned in DESIGN.md)"})
        continue
    mod = importlib.import_module(f"vf.props.{pid.lower()}")
    m = getattr(mod, "MANIFEST", {})
    checks.append({
        "property_id": pid,
        "quick_cmd": f"./check {pid} --tier quick",
        "thorough_cmd": f"./check {pid} --tier thorough",
        "evidence_file": f"/verif/evidence/{pid}.json",
        "replay_cmd_template": f"./check {pid} --replay {{path}}",
        "engine": "vf",
        "level_claimed": {"category": "exploration", "text": m.get("text", ""), "design_ref": f"DESIGN.md section 2, {pid}"},
        "level_note": m.get("note", ""),
        "technique": m.get("technique", "property-based testing (Hypothesis)"),
    })
man = {
    "version": 1,
    "setup_cmd": "./setup.sh",
    "hooks": {"guard": "PYBC_VERIF", "enable": "no source hooks are needed: checks import /repo's working tree directly (pure Python, nothing to build); PYBC_VERIF=1 is exported by the harness and reserved",
              "baseline_off_cmd": "cd /repo && /venv/bin/python -m pytest -ra -q -p no:cacheprovider --timeout=900 --continue-on-collection-errors",
              "source_commits": [], "add_only": True},
    "engines": [{"name": "vf", "path": "/verif/vf", "serves_properties": [c["property_id"] for c in checks],
                 "kind_free_text": "Hypothesis-driven property-based testing: generated cases / histories / schedules against explicit oracles, 16 forked shards, shrinking to JSON replay files"}],
    "checks": checks,
    "not_applicable": na,
    "notes": "All checks: ./check <ID> [--tier quick|thorough] [--replay FILE]; VERIF_SEED selects the Hypothesis seeds; VERIF_REPO (default /repo) selects the tree under test. Known findings: KNOWN_FINDINGS.txt.",
}
with open(os.path.join(ROOT, "MANIFEST.json"), "w") as fh:
    json.dump(man, fh, indent=1)
print("checks:", [c["property_id"] for c in checks], "not_applicable:", [n["property_id"] for n in na])
