#!/usr/bin/env python3
"""tools/save_corpus.py <replay.json> <name> [note] : copy a shrunk replay into corpus/<ID>/<name>.json"""
import json, os, sys
ROOT = os.path.dirname(os.path.dirname(os.path.abspath(__file__)))
d = json.load(open(sys.argv[1]))
out = {"part": d["part"], "case": d["case"], "note": (sys.argv[3] if len(sys.argv) > 3 else d.get("message", ""))[:300],
       "key": d.get("key")}
os.makedirs(os.path.join(ROOT, "corpus", d["property"]), exist_ok=True)
p = os.path.join(ROOT, "corpus", d["property"], sys.argv[2] + ".json")
json.dump(out, open(p, "w"), indent=1)
print(p)
