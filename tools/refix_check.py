#!/usr/bin/env python3
"""For every `fixed:` line of KNOWN_FINDINGS.txt: undo that fix commit in a scratch copy of the package and run the
property's quick check against it - it must report the violation again (exit 1).  Results -> refix_report.json"""
import json, os, re, shutil, subprocess, sys, tempfile
ROOT = os.path.dirname(os.path.dirname(os.path.abspath(__file__)))
REPO = "/repo"
rows = []
for line in open(os.path.join(ROOT, "KNOWN_FINDINGS.txt")):
    m = re.match(r"^fixed:\s+property=(\S+)\s+([0-9a-f]{7,})\s+(.*)$", line.strip())
    if m:
        rows.append(m.groups())
only = set(sys.argv[1:])
out = {}
for pid, commit, text in rows:
    if only and pid not in only and commit not in only:
        continue
    scratch = tempfile.mkdtemp(prefix="pybc_refix_")
    try:
        shutil.copytree(os.path.join(REPO, "py_ballisticcalc"), os.path.join(scratch, "py_ballisticcalc"), ignore=shutil.ignore_patterns("__pycache__"))
        shutil.copy(os.path.join(REPO, ".pybc.toml"), scratch)
        diff = subprocess.run(["git", "-C", REPO, "show", "--format=", commit, "--", "py_ballisticcalc"], capture_output=True, text=True).stdout
        ap = subprocess.run(["patch", "-R", "-p1", "--no-backup-if-mismatch"], input=diff, cwd=scratch, capture_output=True, text=True)
        if ap.returncode != 0:
            out[f"{pid}|{commit}"] = {"status": "reverse-patch-does-not-apply (later fixes touch the same lines)", "text": text[:80]}
            print(pid, commit, "reverse patch does not apply")
            continue
        env = dict(os.environ, VERIF_REPO=scratch, VERIF_OUT=scratch, VERIF_NOSHRINK="1")
        pr = subprocess.run([os.path.join(ROOT, "check"), pid, "--tier", "quick"], capture_output=True, text=True, env=env)
        keys = [l.split("key=", 1)[1].split(": ", 1)[0] for l in pr.stdout.splitlines() if l.startswith("violation key=")]
        out[f"{pid}|{commit}"] = {"exit": pr.returncode, "reported_again": pr.returncode == 1, "keys": keys[:4], "text": text[:80]}
        print(pid, commit, "exit", pr.returncode, keys[:3])
    finally:
        shutil.rmtree(scratch, ignore_errors=True)
json.dump(out, open(os.path.join(ROOT, "refix_report.json"), "w"), indent=1, sort_keys=True)
