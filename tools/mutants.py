#!/usr/bin/env python3
"""Sensitivity harness (development aid).

  tools/mutants.py [--props C06,C19] [--ids m06a,...] [--only-survivors] [--jobs N]

For every selected entry of tools/mutants.json: copy /repo's package to a scratch directory outside /repo and
/verif, apply the textual edits, run `./check <prop> --tier quick` with VERIF_REPO pointing at the copy (evidence and
replays redirected to the scratch directory), record exit code / violation keys / wall time, delete the copy.
Results are merged into /verif/mutation_report.json.
"""
import argparse, json, os, shutil, subprocess, sys, tempfile, time
from concurrent.futures import ThreadPoolExecutor
ROOT = os.path.dirname(os.path.dirname(os.path.abspath(__file__)))
REPO = "/repo"


def run_one(m, props, tier, procs):
    out = []
    scratch = tempfile.mkdtemp(prefix="pybc_mut_")
    try:
        shutil.copytree(os.path.join(REPO, "py_ballisticcalc"), os.path.join(scratch, "py_ballisticcalc"),
                        ignore=shutil.ignore_patterns("__pycache__"))
        if os.path.exists(os.path.join(REPO, ".pybc.toml")):
            shutil.copy(os.path.join(REPO, ".pybc.toml"), scratch)
        path = os.path.join(scratch, m["file"])
        src = open(path, encoding="utf-8").read()
        for old, new, cnt in m["edits"]:
            if src.count(old) < 1:
                return [{"id": m["id"], "prop": p, "status": "edit-does-not-apply"} for p in props]
            src = src.replace(old, new, cnt if cnt else -1)
        open(path, "w", encoding="utf-8").write(src)
        for p in props:
            env = dict(os.environ, VERIF_REPO=scratch, VERIF_OUT=scratch, VERIF_PROCS=str(procs), VERIF_NOSHRINK="1")
            t0 = time.time()
            pr = subprocess.run([os.path.join(ROOT, "check"), p, "--tier", tier], capture_output=True, text=True, env=env)
            keys = [l.split("key=", 1)[1].split(":", 1)[0] + ":" + l.split("key=", 1)[1].split(" ", 1)[0].split(":", 1)[1].rstrip(":")
                    for l in pr.stdout.splitlines() if l.startswith("violation key=")]
            out.append({"id": m["id"], "prop": p, "exit": pr.returncode, "caught": pr.returncode == 1,
                        "keys": keys[:6], "wall_s": round(time.time() - t0, 1), "survives_suite": m.get("survives_suite"),
                        "tail": pr.stdout.strip().splitlines()[-1:] if pr.returncode == 2 else []})
    finally:
        shutil.rmtree(scratch, ignore_errors=True)
    return out


def main():
    ap = argparse.ArgumentParser()
    ap.add_argument("--props", default="")
    ap.add_argument("--ids", default="")
    ap.add_argument("--tier", default="quick")
    ap.add_argument("--jobs", type=int, default=4)
    ap.add_argument("--procs", type=int, default=4)
    ap.add_argument("--all-props", action="store_true", help="run every property's check against each mutant, not only the listed ones")
    a = ap.parse_args()
    cat = json.load(open(os.path.join(ROOT, "tools", "mutants.json")))["mutants"]
    props = set(filter(None, a.props.split(",")))
    ids = set(filter(None, a.ids.split(",")))
    built = {f[:-3].upper() for f in os.listdir(os.path.join(ROOT, "vf", "props")) if f.startswith("c") and f.endswith(".py")}
    jobs = []
    for m in cat:
        if ids and not any(m["id"].startswith(i) for i in ids):
            continue
        ps = [p for p in m["props"] if p in built and (not props or p in props)]
        if props and not ps:
            continue
        if ps:
            jobs.append((m, ps))
    results = []
    with ThreadPoolExecutor(max_workers=a.jobs) as ex:
        for res in ex.map(lambda j: run_one(j[0], j[1], a.tier, a.procs), jobs):
            for r in res:
                print(json.dumps(r))
                results.append(r)
    rp = os.path.join(ROOT, "mutation_report.json")
    old = json.load(open(rp)) if os.path.exists(rp) else {"results": {}}
    for r in results:
        old["results"][f"{r['id']}|{r['prop']}"] = r
    old["summary"] = {"runs": len(old["results"]), "caught": sum(1 for r in old["results"].values() if r.get("caught")),
                      "missed": sorted(k for k, r in old["results"].items() if not r.get("caught"))}
    json.dump(old, open(rp, "w"), indent=1, sort_keys=True)
    print("caught", sum(1 for r in results if r.get("caught")), "of", len(results))


if __name__ == "__main__":
    main()
