#!/bin/sh
# tools/run_some.sh <tier> <ID> [<ID> ...] : run the named checks once with scratch output (VERIF_OUT), print exit code and wall time
cd "$(dirname "$0")/.." || exit 2
TIER=$1; shift
OUT=$(mktemp -d /tmp/pybc_some_XXXX)
for id in "$@"; do
  S=$(date +%s)
  VERIF_OUT=$OUT ./check $id --tier "$TIER" > $OUT/$id.log 2>&1
  RC=$?
  E=$(date +%s)
  echo "$id tier=$TIER exit=$RC wall=$((E-S))s $(grep -E '^violation key=' $OUT/$id.log | cut -c1-220 | head -3)"
done
echo "output in $OUT"
