#!/bin/sh
# tools/seed_sweep.sh "<seeds>" [tier] : quiet-run sweep; evidence/replays go to a scratch dir (VERIF_OUT), never to /verif
cd "$(dirname "$0")/.." || exit 2
SEEDS=${1:-"11 12 13"}
TIER=${2:-quick}
OUT=$(mktemp -d /tmp/pybc_sweep_XXXX)
for sd in $SEEDS; do
  for i in 01 02 03 04 05 06 07 08 09 10 11 12 13 14 15 16 17 18 19 20; do
    VERIF_SEED=$sd VERIF_OUT=$OUT ./check C$i --tier "$TIER" > $OUT/C$i-$sd.log 2>&1
    RC=$?
    echo "seed=$sd C$i exit=$RC $(grep -E '^violation key=' $OUT/C$i-$sd.log | cut -c1-200 | head -3)"
  done
done
echo "sweep output in $OUT"
