#!/bin/sh
# tools/run_all.sh [tier] : run every registered check once, print exit code and wall time per property
cd "$(dirname "$0")/.." || exit 2
TIER=${1:-quick}
for i in 01 02 03 04 05 06 07 08 09 10 11 12 13 14 15 16 17 18 19 20; do
  S=$(date +%s)
  ./check C$i --tier "$TIER" > /tmp/run_all_C$i.log 2>&1
  RC=$?
  E=$(date +%s)
  echo "C$i exit=$RC wall=$((E-S))s $(grep -c '^VIOLATION' /tmp/run_all_C$i.log) violations $(grep -c '^KNOWN-FINDING' /tmp/run_all_C$i.log) known"
done
