"""Hypothesis strategies producing plain-JSON shot specs (see build.py for the format)."""
import math
from hypothesis import strategies as st

TABLES = ["TableG1", "TableG7", "TableG2", "TableG5", "TableG6", "TableG8", "TableGI", "TableGS", "TableRA4"]
DEG = math.pi / 180.0


def log_uniform(lo, hi):
    return st.floats(math.log(lo), math.log(hi)).map(math.exp)


@st.composite
def custom_table(draw):
    """a custom drag table covering Mach 0..~5.5 (the whole flight regime), smooth and positive"""
    n = draw(st.integers(5, 14))
    top = draw(st.floats(5.0, 6.0))
    nodes = []
    cd = draw(st.floats(0.1, 0.6))
    for i in range(n):
        x = top * i / (n - 1)
        if 0 < i < n - 1:
            x += draw(st.floats(-0.3, 0.3)) * top / (n - 1)
        cd = min(2.0, max(0.05, cd * draw(st.floats(0.85, 1.18))))
        nodes.append([x, cd])
    return {"custom": nodes}


def table(custom=True):
    if custom:
        return st.one_of(st.sampled_from(TABLES), st.sampled_from(["TableG1", "TableG7"]), custom_table())
    return st.sampled_from(TABLES)


def mv(classes=("subsonic", "transonic", "rifle")):
    opts = []
    if "subsonic" in classes:
        opts.append(st.floats(150.0, 1100.0))
    if "transonic" in classes:
        opts.append(st.floats(1000.0, 1300.0))
    if "rifle" in classes:
        opts.append(st.floats(1300.0, 4000.0))
        opts.append(st.floats(2200.0, 3200.0))
    return st.one_of(*opts)


@st.composite
def atmo(draw, kinds=("icao", "explicit", "vacuum"), max_alt=15000.0):
    k = draw(st.sampled_from(list(kinds)))
    if k == "icao":
        return {"kind": "icao", "alt": draw(st.one_of(st.just(0.0), st.floats(-1000.0, max_alt)))}
    if k == "vacuum":
        return {"kind": "vacuum", "alt": draw(st.floats(0.0, max_alt)), "t_c": draw(st.floats(-30.0, 40.0))}
    return {"kind": "explicit", "alt": draw(st.floats(-1400.0, max_alt)), "p_hpa": draw(st.floats(500.0, 1100.0)),
            "t_c": draw(st.floats(-40.0, 50.0)),
            "hum": draw(st.one_of(st.floats(0.0, 100.0), st.floats(0.0, 1.0), st.sampled_from([0.0, 50.0, 100.0])))}


@st.composite
def winds(draw, max_n=4, max_speed=60.0, range_ft=3000.0, allow_none=True):
    n = draw(st.integers(0, max_n))
    if n == 0:
        return None if (allow_none and draw(st.booleans())) else []
    out = []
    for _ in range(n):
        speed = draw(st.one_of(st.floats(0.0, max_speed), st.sampled_from([0.0, 10.0, 30.0])))
        direction = draw(st.one_of(st.floats(-math.pi, math.pi), st.sampled_from([0.0, math.pi / 2, math.pi, -math.pi / 2,
                                                                                  math.pi / 4, 3 * math.pi / 4])))
        until = draw(st.one_of(st.floats(1.0, range_ft), st.floats(range_ft, 3 * range_ft),
                               st.sampled_from([range_ft / 2, range_ft / 3, range_ft, 1e8])))
        out.append([speed, direction, until])
    if n >= 2 and draw(st.integers(0, 7)) == 0:
        out[1][2] = out[0][2]  # occasional duplicate until-distance
    return out


@st.composite
def shot(draw, custom=True, mv_classes=("subsonic", "transonic", "rifle"), look_max_deg=60.0, rel_deg=(-2.0, 10.0),
         cant=True, atmo_kinds=("icao", "explicit"), max_winds=4, range_ft=3000.0, twist=True, powder=True, mbc=True,
         zero_deg=(0.0, 0.0), max_alt=15000.0, bc=(0.05, 1.5)):
    spec = {"table": draw(table(custom)), "bc": draw(log_uniform(*bc)), "mv": draw(mv(mv_classes))}
    if draw(st.booleans()):
        d = draw(st.floats(0.17, 0.6))
        spec["wdl"] = [draw(st.floats(20.0, 800.0)), d, d * draw(st.floats(2.0, 6.0))]
    else:
        spec["wdl"] = None
    if mbc and isinstance(spec["table"], str) and draw(st.integers(0, 5)) == 0:
        spec["mbc"] = [[draw(st.floats(0.1, 1.0)), 0.8], [draw(st.floats(0.1, 1.0)), 1.5], [draw(st.floats(0.1, 1.0)), 2.5]]
    if powder and draw(st.integers(0, 5)) == 0:
        spec["powder"] = {"t0_c": draw(st.floats(-20.0, 40.0)), "mod": draw(st.floats(-0.02, 0.03))}
    spec["sh"] = draw(st.one_of(st.floats(-4.0, 6.0), st.sampled_from([0.0, 1.5, 2.0, 3.5])))
    spec["twist"] = draw(st.one_of(st.just(0.0), st.floats(6.0, 20.0), st.floats(-20.0, -6.0))) if twist else 0.0
    spec["zero"] = draw(st.floats(*zero_deg)) * DEG if zero_deg != (0.0, 0.0) else 0.0
    lm = look_max_deg
    if lm > 0:
        spec["look"] = draw(st.one_of(st.just(0.0), st.floats(-min(lm, 10.0), min(lm, 10.0)), st.floats(-lm, lm))) * DEG
    else:
        spec["look"] = 0.0
    spec["rel"] = draw(st.one_of(st.just(0.0), st.floats(*rel_deg), st.floats(max(rel_deg[0], -0.5), min(rel_deg[1], 1.0)))) * DEG
    if cant:
        spec["cant"] = draw(st.one_of(st.just(0.0), st.just(0.0), st.floats(-10.0, 10.0), st.floats(-180.0, 180.0))) * DEG
    else:
        spec["cant"] = 0.0
    spec["atmo"] = draw(atmo(atmo_kinds, max_alt))
    spec["winds"] = draw(winds(max_winds, range_ft=range_ft)) if max_winds else None
    return spec


def prior():
    """what the calculator of a request has been used for before (see build.calculator); None = fresh"""
    return st.sampled_from([None, None, None, "fire-extra", "fire-subsonic", "zero", "raise"])
