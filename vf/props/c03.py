"""C03 - Range card has exactly one row at every requested distance, muzzle to range."""
import bisect
import math
from hypothesis import strategies as st

from .. import lib, ref, gen, build
from ..core import Part, Res

pb = lib.pb
Unit = pb.Unit
D = pb.Distance

ID = "C03"
RULE = ("shots from the shared generator (all tables, slow to fast, look +-60 deg, winds with head/tail/cross components, "
        "tail winds on slow projectiles over-weighted); range 10 ft..2 miles log-uniform; record step dividing / not "
        "dividing / equal to the range / within [1,2] x the maximum integration step / omitted, passed as a bare float "
        "or as a quantity in any of the 10 distance units; time_step 0 or 1e-3..1 s; max_calc_step_size_feet in "
        "{0.25,0.5,1,2}; cases that raise RangeError or turn back are classified out-of-domain; non-trivial = in-domain, "
        ">= 3 required rows and (non-dividing step, or |range component of wind| > 1 fps, or a unit other than feet, or "
        "time_step > 0); distinct = distinct case dicts; in 4 of 7 cases the calculator under test has a past (build.calculator prior: extra-data fire / "
        "subsonic fire / zeroing / RangeError for another fixed shot)")
ASSUMPTIONS = ["'one integration step' = calc_step + the largest ground advance of one step seen in the step trace of the same shot",
               "row distance equals its multiple within 1e-9 * max(1 ft, multiple)",
               "steps larger than the range are outside the statement (the code pads a second row) and are not generated"]

DIST = ref.UNITS_BY_DIM["distance"]


@st.composite
def _case(draw):
    h = draw(st.sampled_from([0.5, 0.5, 0.5, 0.25, 1.0, 2.0]))
    slow_tail = draw(st.integers(0, 3)) == 0
    R = math.exp(draw(st.floats(math.log(10.0), math.log(10560.0))))
    if draw(st.integers(0, 3)):
        R = min(R, 2500.0)
    spec = draw(gen.shot(mv_classes=("subsonic",) if slow_tail else ("subsonic", "transonic", "rifle"),
                         look_max_deg=60.0, rel_deg=(-1.0, 6.0), range_ft=R, max_winds=3))
    if slow_tail:
        sp = draw(st.floats(5.0, 60.0))
        spec["mv"] = draw(st.floats(200.0, 1100.0))
        spec["winds"] = [[sp, draw(st.floats(-0.6, 0.6)), draw(st.sampled_from([1e8, R / 2, R * 2]))]]
        if spec["winds"][0][2] < R:
            spec["winds"].append([draw(st.floats(5.0, 60.0)), draw(st.floats(-0.6, 0.6)), 1e8])
    if not slow_tail and draw(st.integers(0, 6)) == 0:
        # slow projectile on a steep sight line, far enough out for the path to flatten noticeably before the range is
        # reached: the down-range advance of one integration step then grows along the flight (no tail wind needed)
        spec["look"] = draw(st.floats(20.0, 62.0)) * gen.DEG
        spec["mv"] = draw(st.floats(200.0, 800.0))
        spec["bc"] = max(spec["bc"], 0.2)
        R = draw(st.floats(300.0, 2500.0))
        if draw(st.booleans()):
            spec["winds"] = None
    kind = draw(st.sampled_from(["div", "div", "nondiv", "nondiv", "eq", "default", "small"]))
    metric_card = slow_tail and draw(st.booleans())
    if metric_card:
        kind = "div"  # a range card in metric units: the summed steps may end an ulp above the range
    if kind == "div":
        n = draw(st.integers(1, 40))
        s = R / n
    elif kind == "nondiv":
        s = R / draw(st.floats(1.0, 40.0))
    elif kind == "eq":
        s = R
    elif kind == "small":
        s = h * draw(st.floats(1.0, 2.0))
    else:
        s = None
    if s is not None and s < h:
        s = h * draw(st.floats(1.0, 2.0))
        kind = "small"
    if s is not None and s > R:
        s = R
        kind = "eq"
    if kind == "default" and R / 10.0 < h:
        R = 10.0 * h * draw(st.floats(1.0, 50.0))
    ru = draw(st.one_of(st.none(), st.sampled_from(DIST), st.just("Foot")))
    # the preferred distance unit in force decides what bare numbers mean (and, with no step given, nothing else)
    pref = draw(st.sampled_from([None, None, None, "Meter", "Foot", "Kilometer", "Inch", "Mile", "Centimeter"]))
    if metric_card:
        ru = draw(st.sampled_from(["Meter", "Meter", "Centimeter", "Kilometer", "Millimeter"]))
        R = round(R * 0.3048 / 2, 1) * 2 / 0.3048 if R > 40 else R  # typical round metric ranges (even decimetres)
        n = draw(st.sampled_from([10, 10, 5, 20, 8]))
        s = R / n
        if s < h:
            n = max(1, int(R / (2 * h)))
            s = R / n
    su = draw(st.one_of(st.none(), st.sampled_from(DIST), st.just("Foot")))
    rng = [ref.from_si(R * 0.3048, ru or pref or "Yard"), ru]
    if kind == "div":
        # keep exact divisibility in the unit the user types: step value = range value / n
        su = ru
        step = [rng[0] / n, su]
    elif s is None:
        step = None
    else:
        step = [ref.from_si(s * 0.3048, su or pref or "Yard"), su]
    ts = draw(st.one_of(st.just(0.0), st.just(0.0), st.floats(1e-3, 1.0), st.sampled_from([0.01, 0.1, 0.5])))
    return {"shot": spec, "h": h, "range": rng, "step": step, "kind": kind, "time_step": ts, "pref_distance": pref, "prior": draw(gen.prior())}


def _arg(pair):
    v, u = pair
    return v if u is None else Unit[u](v)


def check(case):
    r = Res()
    spec, h = case["shot"], case["h"]
    calc = build.calculator({"max_calc_step_size_feet": h}, prior=case.get("prior"))
    if case.get("prior"):
        r.label("calculator-used-before:" + case["prior"])
    sh = build.shot(spec)
    if case.get("pref_distance"):
        pb.PreferredUnits.distance = Unit[case["pref_distance"]]
        r.label("preferred-distance:" + case["pref_distance"])
    rq, sq = _arg(case["range"]), (_arg(case["step"]) if case["step"] else None)
    R = pb.PreferredUnits.distance(case["range"][0]) >> D.Foot if case["range"][1] is None else rq >> D.Foot
    if sq is None:
        s = R / 10.0
    else:
        s = (pb.PreferredUnits.distance(case["step"][0]) >> D.Foot) if case["step"][1] is None else (sq >> D.Foot)
    ts = case["time_step"]
    r.label("step:" + case["kind"], "bare-range" if case["range"][1] is None else "unit-range")
    if spec.get("look", 0.0) >= 20 * gen.DEG and spec["mv"] <= 800.0:
        r.label("steep-and-slow")
    if s < h * (1 - 1e-12) or s > R * (1 + 1e-12):
        r.label("out-of-domain:step")
        return r
    try:
        if sq is None:
            hit = calc.fire(sh, rq, time_step=ts)
        else:
            hit = calc.fire(sh, rq, sq, time_step=ts)
    except pb.RangeError:
        r.label("out-of-domain:range-error")
        return r
    rows = list(hit.trajectory)
    if any(abs(row.angle.raw_value) >= math.pi / 2 for row in rows):
        r.label("out-of-domain:turns-back")
        return r
    calc_step = h / 2.0
    xs = [row.distance.raw_value / 12.0 for row in rows]
    tsx = [row.time for row in rows]
    # wind classification by the range component in force at R
    ws = sorted(spec.get("winds") or [], key=lambda w: w[2])
    comps = [w[0] * math.cos(w[1]) for w in ws]
    maxc = max([abs(c) for c in comps], default=0.0)
    r.label("wind:tail" if any(c > 1 for c in comps) else "wind:head" if any(c < -1 for c in comps) else "wind:none/cross")

    need_trace = ts > 0
    trace = None

    def get_trace():
        nonlocal trace
        if trace is None:
            tsh = build.shot(spec)
            atmo_c, _ = build.counting(tsh.atmo)
            trace, _ = build.trace(build.calculator({"max_calc_step_size_feet": h}), tsh, R)
            # the trace is itself a time-step request (1e-12 s), so it must not be trusted blindly as "every integration
            # step": the number of steps is counted independently (one atmosphere look-up per step), and by the very
            # clause under test (gap <= time_step + two steps) at least every other step has to be there
            if len(trace) < atmo_c._vf_calls / 2.0 - 5:
                r.bad("C03:time-step-gap:tiny-time-step", f"a request with time_step 1e-12 s returned {len(trace)} rows for "
                      f"{atmo_c._vf_calls} integration steps: successive rows are more than two steps apart")
        return trace

    # 3. muzzle row
    r0 = rows[0]
    mvq = sh.ammo.get_velocity_for_temp(sh.atmo.powder_temp) >> pb.Velocity.FPS
    sh_ft = spec.get("sh", 0.0) / 12.0
    exp0 = {"distance": 0.0, "time": 0.0, "velocity": mvq, "height": -math.cos(spec.get("cant", 0.0)) * sh_ft,
            "windage": -math.sin(spec.get("cant", 0.0)) * sh_ft}
    got0 = {"distance": xs[0], "time": r0.time, "velocity": r0.velocity >> pb.Velocity.FPS,
            "height": r0.height.raw_value / 12.0, "windage": r0.windage.raw_value / 12.0}
    for k in exp0:
        if abs(got0[k] - exp0[k]) > 1e-12 * max(1.0, abs(exp0[k])):
            r.bad(f"C03:muzzle-row:{k}", f"first row {k} = {got0[k]!r}, expected {exp0[k]!r}")
    # 2. strictly increasing
    for i in range(len(rows) - 1):
        if not xs[i + 1] > xs[i]:
            r.bad("C03:order:distance-not-increasing", f"rows {i},{i + 1}: distances {xs[i]!r}, {xs[i + 1]!r}")
            break
        if not tsx[i + 1] > tsx[i]:
            r.bad("C03:order:time-not-increasing", f"rows {i},{i + 1}: times {tsx[i]!r}, {tsx[i + 1]!r}")
            break
    # 1. one row per multiple
    n_req = int(math.floor(R * (1 + 1e-12) / s + 1e-9))
    while (n_req + 1) * s <= R * (1 + 1e-12):
        n_req += 1
    while n_req * s > R * (1 + 1e-12):
        n_req -= 1
    tol = lambda m: 1e-9 * max(1.0, m)
    used = [False] * len(rows)
    order = sorted(range(len(xs)), key=lambda i: xs[i])
    xs_sorted = [xs[i] for i in order]
    missing = []
    for k in range(n_req + 1):
        m = k * s
        # xs is ascending (checked above; if not, a violation has been recorded already): bisect instead of a scan
        lo_i = bisect.bisect_left(xs_sorted, m - tol(m))
        hi_i = bisect.bisect_right(xs_sorted, m + tol(m))
        hits = [order[i] for i in range(lo_i, hi_i)]
        if len(hits) == 0:
            missing.append(k)
        elif len(hits) > 1:
            r.bad("C03:duplicate-row", f"{len(hits)} rows at distance {m!r} ft (multiple {k} of step {s!r})")
            break
        else:
            used[hits[0]] = True
    if missing:
        if missing == [n_req] and n_req >= 1:
            # mechanism predicate of the recorded root cause: a tail component stretches the ground step so that the
            # projectile jumps from short of the last record distance to beyond range + calc_step in one step
            tr = get_trace()
            jump = any(a.x < n_req * s and b.x > R + min(calc_step, s) for a, b in zip(tr, tr[1:])) or \
                (tr and tr[-1].x < n_req * s)
            key = "C03:missing-final-row:tail-component" if (jump and maxc > 0 and any(c > 0 for c in comps)) else "C03:missing-final-row:unexplained"
            r.bad(key, f"no row at the last required distance {n_req * s!r} ft (range {R!r} ft, step {s!r} ft); last row at {xs[-1]!r} ft",
                  wind_range_components=comps)
        else:
            r.bad("C03:missing-rows", f"no row at multiples {missing[:8]} of step {s!r} ft (range {R!r}); {len(rows)} rows returned")
    extra = [i for i, u in enumerate(used) if not u]
    if missing and len(rows) == 2:
        extra = []  # the code pads a result of fewer than two rows with the final integration point: same root cause
    if ts == 0:
        for i in extra:
            x = xs[i]
            k = round(x / s)
            is_next = k == n_req + 1 and abs(x - k * s) <= tol(k * s)
            if is_next:
                tr = get_trace()
                dx_max = max((b.x - a.x for a, b in zip(tr, tr[1:])), default=calc_step)
                if x <= R + calc_step + dx_max:
                    continue
                r.bad("C03:extra-row:beyond-one-step", f"row at {x!r} ft lies more than one integration step beyond the range {R!r}")
            else:
                r.bad("C03:extra-row:not-a-multiple", f"row {i} at {x!r} ft is not a requested distance (step {s!r}, range {R!r})")
            break
        if len([i for i in extra]) > 1:
            r.bad("C03:extra-row:more-than-one", f"{len(extra)} rows besides the requested distances")
    # 4. default step: 11 rows
    if sq is None and ts == 0 and not missing:
        if len(rows) != 11 and not (len(rows) == 12):
            r.bad("C03:default-step-row-count", f"default step gave {len(rows)} rows, expected 11")
    # 5. time step
    if ts > 0:
        tr = get_trace()
        dts = [b.t - a.t for a, b in zip(tr, tr[1:])]
        dt_max = max(dts, default=0.0)
        for i in range(len(rows) - 1):
            if tsx[i + 1] - tsx[i] > ts + 2 * dt_max + 1e-12:
                r.bad("C03:time-step-gap", f"rows {i},{i + 1} are {tsx[i + 1] - tsx[i]!r} s apart, time_step {ts!r} + 2 x {dt_max!r}")
                break
        r.label("time-step")
    unit_other = (case["range"][1] not in ("Foot",)) or (case["step"] is not None and case["step"][1] not in ("Foot",))
    r.nontrivial = n_req + 1 >= 3 and (case["kind"] in ("nondiv", "small") or maxc > 1 or unit_other or ts > 0)
    r.label("in-domain")
    return r


def parts(tier):
    return [Part("rows", strategy=_case(), check=check, n={"quick": 2400, "thorough": 100000})]


MANIFEST = {
    "technique": "Hypothesis-generated shots/requests; validity predicate over the returned row set, with a step trace of the same shot for the integration-step bounds",
    "text": "For every in-domain generated request: exactly one row per multiple of the step up to the range (1e-9), at most one further multiple within one integration step, strictly increasing "
            "distance and time, muzzle row = launch state, 11 rows by default, time gaps <= time_step + 2 steps. Steps bare or in all 10 distance units. Exploration level.",
    "note": "in-domain decided by running the shot (no RangeError, velocity never turns back); one integration step measured from the step trace",
}
