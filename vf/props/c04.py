"""C04 - Every call terminates, and an incomplete trajectory is reported truthfully."""
import math
from hypothesis import strategies as st

from .. import lib, gen, build
from ..core import Part, Res

pb = lib.pb
D, V = pb.Distance, pb.Velocity

ID = "C04"
RULE = ("'wild' shots: elevation -90..+90 deg (vertical and downward included), muzzle velocity 0 / slow / up to 4500 fps, BC "
        "0.01..2, station altitude -1000..30000 ft, Vacuum (10%), winds up to 100 fps, ranges within and far beyond reach, "
        "plain / extra mode, time_step, config subsets (minimum velocity 0/50/up to mv, maximum drop -1..-50000 ft, minimum "
        "altitude default or station-(0..3000) ft, step 0.1..5 ft, gravity -5..-40); 'coincident' shots: moderate launches "
        "whose limits are placed just above the values reached at one step of a lax-limit trace of the same shot, so that two "
        "or three limits are crossed in the same step; non-trivial = RangeError with >= 3 rows, or a normal return after "
        ">= 1000 solver steps; distinct = distinct case dicts")
ASSUMPTIONS = ["termination decided by a deterministic step budget (8 x drag-free path length to the limits / step + 1e5 solver steps; cases whose drag-free path exceeds 1.5e6 steps are skipped), counted by a "
               "subclass of the shot's Atmo; no wall clock",
               "limit comparisons on row values allow 1e-12 relative slack (storage round trip), earlier interpolated rows 1e-6",
               "drag x step kept inside the explicit-Euler stability region (BC >= 0.01, shipped tables, step <= 5 ft)"]

REASONS = {"velocity": pb.RangeError.MinimumVelocityReached, "drop": pb.RangeError.MaximumDropReached,
           "altitude": pb.RangeError.MinimumAltitudeReached}
DEFAULTS = {"cMinimumVelocity": 50.0, "cMaximumDrop": -15000.0, "cMinimumAltitude": -1410.748, "cGravityConstant": -32.17405,
            "max_calc_step_size_feet": 0.5}


@st.composite
def _wild(draw):
    el = draw(st.one_of(st.floats(-90.0, 90.0), st.sampled_from([90.0, -90.0, 0.0, 45.0, 89.9, -45.0]), st.floats(-5.0, 15.0)))
    mv = draw(st.one_of(st.sampled_from([0.0, 0.0, 30.0, 49.9, 50.0, 51.0]), st.floats(0.0, 300.0), st.floats(300.0, 4500.0), st.floats(300.0, 4500.0)))
    vac = draw(st.integers(0, 9)) == 0
    alt = draw(st.one_of(st.just(0.0), st.floats(-1000.0, 30000.0)))
    spec = {"table": draw(st.sampled_from(gen.TABLES)), "bc": math.exp(draw(st.floats(math.log(0.01), math.log(2.0)))), "mv": mv,
            "wdl": [150.0, 0.308, 1.2] if draw(st.booleans()) else None, "sh": draw(st.sampled_from([0.0, 2.0, -2.0, 3.5])),
            "twist": draw(st.sampled_from([0.0, 10.0, -8.0])), "zero": 0.0, "look": 0.0, "rel": el * gen.DEG,
            "cant": draw(st.sampled_from([0.0, 0.0, 0.3, -1.0])),
            "atmo": {"kind": "vacuum", "alt": alt, "t_c": 15.0} if vac else {"kind": "icao", "alt": alt},
            "winds": draw(gen.winds(3, max_speed=100.0, range_ft=2000.0))}
    cfg = {}
    if draw(st.booleans()):
        cfg["cMinimumVelocity"] = draw(st.one_of(st.sampled_from([0.0, 50.0]), st.floats(0.0, max(mv, 1.0))))
    if draw(st.booleans()):
        cfg["cMaximumDrop"] = -draw(st.one_of(st.sampled_from([1.0, 100.0, 15000.0]), st.floats(1.0, 50000.0)))
    if draw(st.booleans()):
        cfg["cMinimumAltitude"] = alt - draw(st.floats(0.0, 3000.0))
    if draw(st.booleans()):
        cfg["max_calc_step_size_feet"] = draw(st.one_of(st.floats(0.1, 5.0), st.sampled_from([0.5, 1.0, 2.0])))
    if draw(st.integers(0, 4)) == 0:
        cfg["cGravityConstant"] = -draw(st.floats(5.0, 40.0))
    # balance: about half of the ranges within reach
    reach = max(30.0, mv * mv / 32.0 * abs(math.sin(2 * max(abs(el), 3.0) * gen.DEG)) * 0.3)
    R = draw(st.one_of(st.floats(10.0, min(reach, 6000.0)), st.floats(10.0, 3000.0), st.floats(3000.0, 3e5)))
    return {"cls": "wild", "shot": spec, "config": cfg, "R": R, "step": R / draw(st.integers(1, 20)),
            "extra": draw(st.booleans()), "ts": draw(st.sampled_from([0.0, 0.0, 0.1, 1.0])),
            # history: the calculator may have computed a shot from another station altitude before
            "used_before_alt": draw(st.one_of(st.none(), st.floats(-1000.0, 12000.0))),
            # one case in three also runs under the line watch (loops that never reach the next integration step)
            "watched": draw(st.integers(0, 2)) == 0}


@st.composite
def _coincident(draw):
    R = draw(st.floats(200.0, 3000.0))
    spec = draw(gen.shot(custom=False, look_max_deg=30.0, rel_deg=(-3.0, 12.0), range_ft=R, max_winds=2, mbc=False,
                         atmo_kinds=("icao",), max_alt=8000.0))
    which = draw(st.sampled_from([["velocity", "drop"], ["velocity", "altitude"], ["drop", "altitude"], ["velocity", "drop", "altitude"],
                                  ["velocity"], ["drop"], ["altitude"]]))
    return {"cls": "coincident", "shot": spec, "config": {"max_calc_step_size_feet": draw(st.sampled_from([0.5, 1.0, 2.0]))},
            "R": R, "step": R / draw(st.integers(1, 12)), "extra": draw(st.booleans()), "ts": 0.0,
            "k_frac": draw(st.floats(0.05, 0.98)), "which": which,
            "eps": draw(st.sampled_from([1e-9, 1e-6, 0.0]))}


def _cfg_value(cfg, key):
    return cfg.get(key, DEFAULTS[key])


def _violated(row, cfg, alt0, slack):
    """which limits the row violates, with relative slack (positive slack = lenient towards 'violated')"""
    v = row.velocity >> V.FPS
    y = row.height >> D.Foot
    out = []
    mv_, md_, ma_ = _cfg_value(cfg, "cMinimumVelocity"), _cfg_value(cfg, "cMaximumDrop"), _cfg_value(cfg, "cMinimumAltitude")
    if v < mv_ + slack * max(abs(mv_), 1.0):
        out.append("velocity")
    if y < md_ + slack * max(abs(md_), 1.0):
        out.append("drop")
    if alt0 + y < ma_ + slack * max(abs(ma_), abs(alt0), 1.0):
        out.append("altitude")
    return out


def check(case):
    r = Res()
    spec = case["shot"]
    cfg = dict(case["config"])
    r.label("class:" + case["cls"])
    alt0 = spec["atmo"]["alt"]
    if case["cls"] == "coincident":
        lax = dict(cfg, cMinimumVelocity=0.0, cMaximumDrop=-1e9, cMinimumAltitude=-1e9)
        lax_shot = build.shot(spec)
        _, LaxExceeded = build.counting(lax_shot.atmo, int(40 * case["R"] / (cfg.get("max_calc_step_size_feet", 0.5) / 2)) + 100000)
        try:
            with build.LineWatch(lambda: lax_shot.atmo._vf_calls, arm_after_s=10.0) as lw:
                tr, terr = build.trace(build.calculator(lax), lax_shot, case["R"])
        except LaxExceeded:
            r.label("out-of-domain:lax-trace-too-long")
            return r
        except build.NoProgress as e:
            r.bad("C04:does-not-terminate:no-progress", f"{lw.limit} source lines executed after integration step {lax_shot.atmo._vf_calls} without reaching "
                  f"the next one, still running at {e} (step trace over {case['R']!r} ft, config {lax})")
            return r
        if len(tr) < 10:
            return r
        k = max(2, min(len(tr) - 2, int(case["k_frac"] * len(tr))))
        p = tr[k]
        e = case["eps"]
        if "velocity" in case["which"]:
            cfg["cMinimumVelocity"] = p.v * (1 + e) + 1e-9
        if "drop" in case["which"]:
            cfg["cMaximumDrop"] = p.y + abs(p.y) * e + 1e-9
        if "altitude" in case["which"]:
            cfg["cMinimumAltitude"] = alt0 + p.y + abs(alt0 + p.y) * e + 1e-9
        r.label("coincident:" + "+".join(case["which"]))
    h = _cfg_value(cfg, "max_calc_step_size_feet")
    calc_step = h / 2.0
    g = abs(_cfg_value(cfg, "cGravityConstant"))
    v0 = spec["mv"] + 100.0
    est = (case["R"] + v0 * v0 / g + abs(_cfg_value(cfg, "cMaximumDrop")) + abs(alt0 - _cfg_value(cfg, "cMinimumAltitude"))) / calc_step
    if est > 1.5e6:
        # a legitimate flight this long (e.g. a 4300 fps vertical shot in a vacuum under weak gravity climbs 1.9 million ft)
        # costs minutes per case; it is left out rather than given a budget that it could exceed legitimately
        r.label("skipped:drag-free-path-too-long")
        return r
    budget = int(8 * est + 1e5)
    sh = build.shot(spec)
    atmo_obj, Exceeded = build.counting(sh.atmo, budget)
    calc = build.calculator(cfg)
    if case.get("used_before_alt") is not None:
        other = dict(spec, atmo={"kind": "icao", "alt": case["used_before_alt"]}, winds=None, rel=0.02, mv=max(spec["mv"], 900.0))
        build.fire(calc, build.shot(other), 60.0, 30.0)
        r.label("calculator-used-before")
    err = None
    # loops that never reach the next integration step: one case in three counts lines from the start, the others only
    # once the call has been running for 5 s
    watch = build.LineWatch(lambda: atmo_obj._vf_calls, arm_after_s=None if (case.get("watched") and est <= 2e5) else 5.0)
    try:
        with watch:
            hit = calc.fire(sh, D.Foot(case["R"]), D.Foot(case["step"]), extra_data=case["extra"], time_step=case["ts"])
        rows = list(hit.trajectory)
    except pb.RangeError as e:
        err = e
        rows = list(e.incomplete_trajectory)
    except Exceeded:
        r.bad("C04:does-not-terminate:step-budget", f"more than {budget} solver steps (range {case['R']!r} ft, config {cfg})")
        return r
    except build.NoProgress as e:
        r.bad("C04:does-not-terminate:no-progress", f"{watch.limit} source lines executed after integration step {atmo_obj._vf_calls} without reaching "
              f"the next one, still running at {e} (range {case['R']!r} ft, step {case['step']!r} ft, config {cfg})")
        return r
    if watch.armed:
        r.label("line-watched" if watch.arm_after_s is None else "line-watched-after-5s")
    steps = atmo_obj._vf_calls
    r.info["steps"] = steps
    r.target = steps / budget
    if err is None:
        r.label("returned")
        last = rows[-1].distance >> D.Foot
        if last < case["R"] * (1 - 1e-9) - 1e-9:
            r.bad("C04:returned-short-of-range", f"returned normally but the last row is at {last!r} ft, requested range {case['R']!r} ft")
        r.nontrivial = steps >= 1000
        return r
    # ---------------------------------------------------------------- RangeError
    reason = err.reason
    r.label("raised")
    if reason not in REASONS.values():
        r.bad("C04:unknown-reason", f"RangeError reason {reason!r} is none of the documented ones")
        return r
    name = next(k for k, v_ in REASONS.items() if v_ == reason)
    r.label("reason:" + name)
    if not rows:
        r.bad("C04:empty-incomplete-trajectory", "RangeError carries no rows")
        return r
    last = rows[-1]
    if err.last_distance is None or err.last_distance.raw_value != last.distance.raw_value:
        r.bad("C04:last-distance", f"last_distance {err.last_distance} is not the last row's distance {last.distance}")
    strict = _violated(last, cfg, alt0, -1e-12)   # certainly violated
    lenient = _violated(last, cfg, alt0, +1e-12)  # possibly violated
    if name not in lenient:
        r.bad(f"C04:reason-not-violated:{name}", f"reason '{reason}' but the last row (speed {last.velocity >> V.FPS!r} fps, height "
              f"{last.height >> D.Foot!r} ft, station {alt0!r} ft) does not violate that limit of config {cfg}")
    else:
        order = ["velocity", "drop", "altitude"]
        higher = [x for x in order[:order.index(name)] if x in strict]
        if higher:
            r.bad(f"C04:precedence:{higher[0]}-before-{name}", f"reason '{reason}' although the last row also violates the {higher[0]} limit, "
                  f"which takes precedence (speed {last.velocity >> V.FPS!r} fps, height {last.height >> D.Foot!r} ft, config {cfg})")
    for i, row in enumerate(rows[1:-1], start=1):
        bad = _violated(row, cfg, alt0, -1e-6)
        if bad:
            r.bad(f"C04:earlier-row-violates:{bad[0]}", f"row {i} of {len(rows)} (x={row.distance >> D.Foot!r} ft, speed {row.velocity >> V.FPS!r} fps, "
                  f"height {row.height >> D.Foot!r} ft) already violates the {bad[0]} limit of config {cfg}")
            break
    # ---------------------------------------------------------------- unperturbed: relax only the violated limit
    relaxed = dict(cfg)
    if name == "velocity":
        relaxed["cMinimumVelocity"] = _cfg_value(cfg, "cMinimumVelocity") / 2.0
    elif name == "drop":
        lim = _cfg_value(cfg, "cMaximumDrop")
        relaxed["cMaximumDrop"] = lim - min(abs(lim), 2000.0) - 1.0
    else:
        relaxed["cMinimumAltitude"] = _cfg_value(cfg, "cMinimumAltitude") - 1000.0
    sh2 = build.shot(spec)
    atmo2, Exceeded2 = build.counting(sh2.atmo, budget * 2)
    try:
        with build.LineWatch(lambda: atmo2._vf_calls, arm_after_s=10.0) as lw2:
            hit2 = build.calculator(relaxed).fire(sh2, D.Foot(case["R"]), D.Foot(case["step"]), extra_data=case["extra"], time_step=case["ts"])
        rows2 = list(hit2.trajectory)
    except build.NoProgress as e:
        r.bad("C04:does-not-terminate:no-progress", f"{lw2.limit} source lines executed after integration step {atmo2._vf_calls} without reaching "
              f"the next one, still running at {e} (range {case['R']!r} ft, step {case['step']!r} ft, config {relaxed})")
        return r
    except pb.RangeError as e2:
        rows2 = list(e2.incomplete_trajectory)
    except Exceeded2:
        r.bad("C04:does-not-terminate:step-budget", f"relaxed run exceeds {budget * 2} solver steps (config {relaxed})")
        return r
    a, b = build.rows_raw(rows[:-1]), build.rows_raw(rows2[:len(rows) - 1])
    if a != b:
        i = next((i for i, (x, y) in enumerate(zip(a, b)) if x != y), min(len(a), len(b)))
        r.bad("C04:limit-perturbs-earlier-rows", f"row {i} of the incomplete trajectory differs from the same shot computed with the {name} limit relaxed "
              f"({a[i] if i < len(a) else None} vs {b[i] if i < len(b) else None})")
    r.nontrivial = len(rows) >= 3
    return r


def parts(tier):
    return [
        Part("wild", strategy=_wild(), check=check, n={"quick": 1400, "thorough": 60000}),
        Part("coincident", strategy=_coincident(), check=check, n={"quick": 500, "thorough": 10000}),
    ]


MANIFEST = {
    "technique": "Hypothesis-generated extreme shots and limit configurations (incl. limits placed on one step of a lax-limit trace so several are crossed at once); deterministic step budget; RangeError truthfulness predicate; metamorphic relaxed-limit refire",
    "text": "Every generated computation ends within a step budget and either reaches the range or raises RangeError whose reason is a limit of this calculator's config that the last row violates, with velocity > drop > altitude precedence; "
            "earlier rows respect all limits and are bit-identical to the same shot with the limit relaxed; last_distance is the last row's. Exploration level; termination is decided for generated inputs only.",
    "note": "step budget counted through an Atmo subclass (no hook); any exception other than RangeError is reported as a violation keyed by type and library frame",
}
