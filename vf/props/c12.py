"""C12 - Wind acts by segment, in order of distance, symmetrically and causally."""
import math
from hypothesis import strategies as st

from .. import lib, gen, build
from ..core import Part, Res

pb = lib.pb

ID = "C12"
RULE = ("generated shots with wind lists of 0..5 segments (speeds incl. 0, any directions with cardinal ones over-weighted, "
        "until-distances inside/beyond the range, any order, occasional duplicates); one metamorphic relation per case out "
        "of {permutation, null-winds, beyond-last, split, causality, mirror, signs, in-place-edit}; non-trivial = the "
        "base list has >= 2 segments with distinct until-distances inside the range and speed > 1 fps (or, for signs / "
        "null relations, the relation's own wind is non-zero); distinct = distinct case dicts; in 4 of 7 cases the calculator under test has a past (build.calculator prior: extra-data fire / "
        "subsonic fire / zeroing / RangeError for another fixed shot)")
ASSUMPTIONS = ["rows compared on raw values: bit-identical for permutation / causality / in-place-edit, 1e-12 relative for null / beyond-last / split / mirror",
               "split points keep >= 2 maximum steps from the neighbouring boundaries (the wind sock advances one segment per step: first-order effect covered by C01)",
               "'head wind lowers the path' only for level or downward launches (on a rising path the first-order effect on height changes sign along the way); time ordering for all",
               "head/tail signs are asserted on the Richardson-extrapolated effect (steps h, h/2) and only where it exceeds 3x the change between the two step sizes"]

RELS = ["perm", "null", "beyond-last", "split", "causal", "causal", "mirror", "signs-cross", "signs-headtail", "in-place"]


@st.composite
def _case(draw):
    rel = draw(st.sampled_from(RELS))
    R = draw(st.floats(150.0, 2400.0))
    n = draw(st.integers(0, 5)) if rel not in ("perm", "causal", "split") else draw(st.integers(1, 5))
    ws = []
    for _ in range(n):
        ws.append([draw(st.one_of(st.floats(0.0, 60.0), st.sampled_from([0.0, 10.0, 30.0]))),
                   draw(st.one_of(st.floats(-math.pi, math.pi), st.sampled_from([0.0, math.pi / 2, math.pi, -math.pi / 2]))),
                   draw(st.one_of(st.floats(10.0, R), st.floats(R, 2 * R), st.sampled_from([R / 2, R / 3, 1e8])))])
    if n >= 2 and draw(st.integers(0, 6)) == 0:
        ws[1][2] = ws[0][2]
    twist_ok = rel not in ("signs-cross",)
    # the head/tail sign rule presumes drag that grows with air speed: shipped single-BC tables only (a generated
    # multi-BC or custom curve may make v^2 K(v) fall with speed, and then a head wind physically shortens the flight)
    plain = rel == "signs-headtail"
    spec = draw(gen.shot(look_max_deg=30.0, rel_deg=(-2.0, 6.0), cant=rel not in ("signs-cross", "signs-headtail"),
                         max_winds=0, twist=twist_ok, mv_classes=("subsonic", "transonic", "rifle"),
                         custom=not plain, mbc=not plain))
    spec["winds"] = ws
    case = {"rel": rel, "shot": spec, "R": R, "step": R / draw(st.integers(2, 12)), "h": draw(st.sampled_from([0.5, 0.5, 1.0]))}
    if rel == "perm":
        case["perm"] = draw(st.permutations(list(range(n))))
    elif rel == "null":
        case["zeros"] = [[0.0, draw(st.floats(-math.pi, math.pi)), draw(st.one_of(st.floats(10.0, 2 * R), st.just(1e8)))]
                         for _ in range(draw(st.integers(1, 3)))]
    elif rel == "split":
        case["which"] = draw(st.integers(0, n - 1))
        case["frac"] = draw(st.floats(0.05, 0.95))
    elif rel == "causal":
        case["d_frac"] = draw(st.floats(0.1, 0.95))
        case["new_tail"] = [[draw(st.floats(0.0, 60.0)), draw(st.floats(-math.pi, math.pi)),
                             draw(st.floats(0.0, 1.0))] for _ in range(draw(st.integers(0, 3)))]
        case["delta_cross"] = draw(st.floats(5.0, 40.0)) * draw(st.sampled_from([1, -1]))
    elif rel == "signs-cross":
        case["wind"] = [draw(st.floats(0.5, 60.0)), draw(st.floats(0.02, math.pi - 0.02))]
    elif rel == "signs-headtail":
        case["speed"] = draw(st.floats(3.0, 60.0))
    elif rel == "in-place":
        case["edit"] = draw(st.sampled_from(["mirror", "calm", "speed", "direction", "until", "redisplay", "redisplay"]))
        case["unit"] = draw(st.sampled_from(["Meter", "Yard", "Kilometer", "Inch", "Mile", "Centimeter"]))
        case["val"] = draw(st.floats(0.0, 1.0))
    case["prior"] = draw(gen.prior())
    return case


def _run(case, spec, shot_obj=None):
    calc = build.calculator({"max_calc_step_size_feet": case["h"]}, prior=case.get("prior"))
    sh = shot_obj if shot_obj is not None else build.shot(spec)
    rows, err = build.fire(calc, sh, case["R"], case["step"])
    return build.rows_raw(rows), err


def _same(r, key, a, b, what, rel_tol=0.0, upto=None, negate=()):
    for ra, rb in zip(a, b):
        if upto is not None and ra[1] / 12.0 > upto:
            break
        for i, name in enumerate(build.NUM_COLS):
            x, y = ra[i], rb[i]
            if name in negate:
                y = -y
            if x != y and abs(x - y) > rel_tol * max(abs(x), abs(y)):
                r.bad(f"{key}:{name}", f"{what}: at {ra[1] / 12.0!r} ft column {name}: {ra[i]!r} vs {rb[i]!r}")
                return False
    if upto is None and len(a) != len(b):
        r.bad(f"{key}:row-count", f"{what}: {len(a)} vs {len(b)} rows")
        return False
    return True


def check(case):
    r = Res()
    rel, spec, R = case["rel"], case["shot"], case["R"]
    ws = spec["winds"]
    r.label(rel)
    inside = sorted({w[2] for w in ws if w[2] < R and w[0] > 1.0})
    nt = len(inside) >= 2
    base, err = _run(case, spec)
    if err is not None:
        r.label("range-error")
    if rel == "perm":
        # stable re-ordering: equal until-distances keep their relative order
        order = list(case["perm"])
        pos = {}
        for i in sorted(range(len(ws)), key=lambda i: ws[i][2]):
            pos.setdefault(ws[i][2], []).append(i)
        permuted = [ws[i] for i in order]
        # restore the given relative order inside groups of equal until-distance
        # (equality as the library sees it: the base-unit magnitude; two distances one ulp apart in feet can coincide there)
        gk = lambda w: pb.Distance.Foot(w[2]).raw_value
        groups = {}
        for w in ws:
            groups.setdefault(gk(w), []).append(w)
        seen = {}
        fixed = []
        for w in permuted:
            k = seen.get(gk(w), 0)
            fixed.append(groups[gk(w)][k])
            seen[gk(w)] = k + 1
        other, _ = _run(case, dict(spec, winds=fixed))
        _same(r, "C12:order-of-given-list-matters", base, other, f"winds {ws} vs permuted {fixed}")
        # the same list assigned through the Shot.winds setter instead of the constructor
        sh_set = build.shot(dict(spec, winds=None))
        sh_set.winds = build.winds({"winds": fixed})
        other_set, _ = _run(case, None, shot_obj=sh_set)
        _same(r, "C12:winds-setter-differs-from-constructor", other, other_set, f"winds {fixed} given to the constructor vs assigned to Shot.winds")
        nt = nt and fixed != ws
    elif rel == "null":
        none_rows, _ = _run(case, dict(spec, winds=None))
        empty_rows, _ = _run(case, dict(spec, winds=[]))
        zero_rows, _ = _run(case, dict(spec, winds=case["zeros"]))
        _same(r, "C12:empty-list-differs-from-no-wind", none_rows, empty_rows, "winds=None vs winds=[]", 1e-12)
        sh_def = build.shot(dict(spec, winds=None))
        sh_def.winds = [pb.Wind()]
        def_rows, _ = _run(case, None, shot_obj=sh_def)
        _same(r, "C12:default-wind-differs-from-no-wind", none_rows, def_rows, "winds=None vs winds=[Wind()]", 1e-12)
        _same(r, "C12:zero-speed-wind-differs-from-no-wind", none_rows, zero_rows, f"winds=None vs zero-speed winds {case['zeros']}", 1e-12)
        nt = True
    elif rel == "beyond-last":
        if ws:
            # an explicit until-distance is the segment's end whatever `max_distance_feet` (the default for a missing one) says
            V_, A_, D_ = pb.Velocity, pb.Angular, pb.Distance
            for f_ in (0.3, 5.0):
                sh4 = build.shot(dict(spec, winds=None))
                sh4.winds = [pb.Wind(V_.FPS(w[0]), A_.Radian(w[1]), D_.Foot(w[2]), max_distance_feet=w[2] * f_) for w in ws]
                other4, _ = _run(case, None, shot_obj=sh4)
                _same(r, "C12:explicit-until-distance-changed-by-max_distance_feet", base, other4,
                      f"winds {ws} vs the same built with max_distance_feet = {f_} x until-distance")
            last = max(w[2] for w in ws)
            if last < 1e7:
                other, _ = _run(case, dict(spec, winds=ws + [[0.0, 0.3, 1e8]]))
                _same(r, "C12:wind-beyond-last-segment", base, other, f"winds {ws} vs the same followed by a calm segment", 1e-12)
                # and: the last segment does not extend beyond its until-distance
                if (last < R * 0.8 and err is None and base and base[-1][1] / 12.0 > last + 50.0
                        and sum(1 for w in ws if w[2] == last) == 1
                        and any(w[0] * abs(math.sin(w[1])) > 2.0 for w in ws if w[2] == last)):
                    ext = [list(w) for w in ws]
                    for w in ext:
                        if w[2] == last:
                            w[2] = 1e8
                    other2, _ = _run(case, dict(spec, winds=ext))
                    # "to the end": the until-distance left out (documented default), or given as max_distance_feet
                    V_, A_, D_ = pb.Velocity, pb.Angular, pb.Distance
                    for how in ("default", "max_distance_feet"):
                        sh3 = build.shot(dict(spec, winds=None))
                        sh3.winds = [(pb.Wind(V_.FPS(w[0]), A_.Radian(w[1])) if how == "default" else
                                      pb.Wind(V_.FPS(w[0]), A_.Radian(w[1]), max_distance_feet=1e8)) if w[2] == 1e8 else
                                     pb.Wind(V_.FPS(w[0]), A_.Radian(w[1]), D_.Foot(w[2])) for w in ext]
                        other3, _ = _run(case, None, shot_obj=sh3)
                        _same(r, f"C12:open-ended-last-segment:{how}", other2, other3, f"last segment of {ext} until 1e8 ft vs until-distance left to {how}")
                    if base and other2 and base[-1][7] == other2[-1][7]:
                        r.bad("C12:last-segment-persists", f"extending the last segment of {ws} beyond {last!r} ft changes nothing: wind persists after the last segment")
                    nt = True
        else:
            nt = False
    elif rel == "split":
        srt = sorted(ws, key=lambda w: w[2])
        i = case["which"] % len(srt)
        seg = srt[i]
        start = srt[i - 1][2] if i > 0 else 0.0
        end = min(seg[2], 1e7 if seg[2] < 1e7 else 3 * R)
        margin = 2 * case["h"] + 2 * case["h"] * 60.0 / max(150.0, spec["mv"] * 0.3)
        lo, hi = start + margin + 2.0, end - margin - 2.0
        others = [w[2] for w in srt]
        if hi > lo:
            u2 = lo + case["frac"] * (hi - lo)
            if all(abs(u2 - o) > margin + 2.0 for o in others):
                new = [list(w) for w in ws] + [[seg[0], seg[1], u2]]
                other, _ = _run(case, dict(spec, winds=new))
                _same(r, "C12:splitting-a-segment-changes-result", base, other, f"winds {ws} vs segment {seg} split at {u2!r} ft", 1e-12)
                nt = nt or (seg[0] > 1.0 and u2 < R)
            else:
                nt = False
        else:
            nt = False
    elif rel == "causal":
        d = case["d_frac"] * R
        srt = sorted(ws, key=lambda w: w[2])
        head = [list(w) for w in srt if w[2] <= d]
        # the segment covering d is cut at d (keeps the same wind up to d), the tail is replaced
        cover = next((w for w in srt if w[2] > d), None)
        base_list = head + ([[cover[0], cover[1], d]] if cover else [[0.0, 0.0, d]])
        tail_a = [list(w) for w in srt if w[2] > d]
        tail_b = [[s, a, d + (3 * R - d) * (k + 1) / (len(case["new_tail"]) + 1) * f] for k, (s, a, f) in enumerate(case["new_tail"])]
        tail_b = [w for w in tail_b if w[2] > d + 1e-6]
        rows_a, _ = _run(case, dict(spec, winds=base_list + tail_a))
        rows_b, _ = _run(case, dict(spec, winds=base_list + tail_b))
        _same(r, "C12:causality:rows-before-changed-segment-differ", rows_a, rows_b,
              f"winds {base_list + tail_a} vs {base_list + tail_b} (identical up to {d!r} ft)", 0.0, upto=d)
        # and cutting the covering segment at d without changing its wind leaves rows up to d as in the original list
        _same(r, "C12:causality:rows-before-changed-segment-differ", base, rows_a, f"winds {ws} vs {base_list + tail_a}", 0.0, upto=d)
        # sensitivity: a cross wind change beyond d must show in the last row
        if d < 0.7 * R and rows_b and err is None and base and base[-1][1] / 12.0 > d + 50.0:
            tail_c = [[abs(case["delta_cross"]), math.copysign(math.pi / 2, case["delta_cross"]), 1e8]]
            tail_0 = [[0.0, 0.0, 1e8]]
            rows_c, _ = _run(case, dict(spec, winds=base_list + tail_c))
            rows_0, _ = _run(case, dict(spec, winds=base_list + tail_0))
            if rows_c and rows_0 and len(rows_c) == len(rows_0) and rows_c[-1][7] == rows_0[-1][7]:
                r.bad("C12:segment-beyond-d-has-no-effect", f"a {case['delta_cross']!r} fps cross wind beyond {d!r} ft does not change the windage at {R!r} ft")
        nt = True if (head or cover) else nt
    elif rel == "mirror":
        m = dict(spec, winds=[[w[0], -w[1], w[2]] for w in ws], cant=-spec.get("cant", 0.0), twist=-spec.get("twist", 0.0))
        other, _ = _run(case, m)
        _same(r, "C12:mirror", base, other, f"winds {ws} vs mirrored", 1e-12, negate=("windage", "windage_adj"))
        nt = any(w[0] * abs(math.sin(w[1])) > 1.0 for w in ws)
    elif rel == "signs-cross":
        sp, direction = case["wind"]
        s2 = dict(spec, winds=[[sp, direction, 1e8]], twist=0.0, cant=0.0)
        rows, _ = _run(case, s2)
        if sp * math.sin(direction) >= 0.1:
            for row in rows:
                if row[1] / 12.0 > 1.0 and not row[7] > 0:
                    r.bad("C12:left-wind-deflects-left", f"wind {sp!r} fps from {math.degrees(direction)!r} deg (shooter's left): "
                          f"windage {row[7]!r} in at {row[1] / 12.0!r} ft is not to the right")
                    break
            nt = True
        else:
            nt = False
    elif rel == "signs-headtail":
        # The solver is first order in the step and its time step depends on the air speed, so a head wind also changes
        # the discretisation error.  The physical effect is therefore taken from two step sizes (h, h/2) by Richardson
        # extrapolation, and a sign is asserted only where the extrapolated effect exceeds 3x the change between the
        # two step sizes (the estimate of what is left of the discretisation error).
        sp = case["speed"]
        s0 = dict(spec, twist=0.0, cant=0.0)
        runs = {}
        bad_run = False
        for lvl, hh in (("h", case["h"]), ("h2", case["h"] / 2)):
            for nm, wl in (("calm", []), ("head", [[sp, math.pi, 1e8]]), ("tail", [[sp, 0.0, 1e8]])):
                rows_, e_ = _run(dict(case, h=hh), dict(s0, winds=wl))
                if e_ is not None:
                    bad_run = True
                runs[(lvl, nm)] = rows_
        launch = spec.get("look", 0.0) + spec.get("rel", 0.0) + spec.get("zero", 0.0)
        asserted = 0
        calm_rows = runs[("h", "calm")]
        v_min = min((row[2] * 3.2808399 for row in calm_rows), default=1.0) - sp
        v_max = max((row[2] * 3.2808399 for row in calm_rows), default=1.0) + sp
        dx = case["h"] / 2 * (1 + sp / max(v_min, 1.0))
        a_max = 32.2 + 3 * max((abs(calm_rows[i][2] - calm_rows[i + 1][2]) * 3.2808399 / max(calm_rows[i + 1][0] - calm_rows[i][0], 1e-9)
                                for i in range(len(calm_rows) - 1)), default=0.0)
        floor = {4: 12.0 * 32.2 / max(v_min, 1.0) ** 2 * dx * dx / 8,      # height column, inches
                 0: a_max / max(v_min, 1.0) ** 3 * dx * dx / 8}           # time column, seconds
        if not bad_run and v_min > 50.0 and len({len(v) for v in runs.values()}) == 1:
            for i in range(1, len(runs[("h", "calm")])):
                x = runs[("h", "calm")][i][1] / 12.0
                if any(abs(v[i][1] / 12.0 - x) > 1e-6 for v in runs.values()):
                    continue
                for col, name in ((0, "time-of-flight"), (4, "drop")):
                    if name == "drop" and launch > 0:
                        continue  # on a rising path the first-order effect on height changes sign along the way
                    eff = {}
                    for nm in ("head", "tail"):
                        d1 = runs[("h", nm)][i][col] - runs[("h", "calm")][i][col]
                        d2 = runs[("h2", nm)][i][col] - runs[("h2", "calm")][i][col]
                        eff[nm] = (2 * d2 - d1, abs(d2 - d1))
                    (eh, errh), (et, errt) = eff["head"], eff["tail"]
                    if abs(eh) <= 3 * errh or abs(et) <= 3 * errt:
                        continue
                    # rows are linearly interpolated between integration points: that error (curvature x step^2 / 8)
                    # depends on where the record distance falls between two points, which the wind shifts, so it is
                    # not removed by the extrapolation.  Effects must stand clear of it.
                    if abs(eh) <= 8 * floor[col] or abs(et) <= 8 * floor[col]:
                        continue
                    asserted += 1
                    want_head_positive = (name == "time-of-flight")  # head wind: longer flight, lower path
                    if (eh > 0) != want_head_positive or (et > 0) == want_head_positive:
                        r.bad(f"C12:head-tail:{name}", f"{sp!r} fps, launch {math.degrees(launch)!r} deg, at {x!r} ft: head wind changes "
                              f"{name} by {eh!r}, tail wind by {et!r} (extrapolated to zero step; raw units)")
                        break
                if r.violations:
                    break
        nt = asserted > 0
        r.label("headtail-asserted" if asserted else "headtail-below-resolution")
    elif rel == "in-place":
        # history: the caller edits its own Wind objects between two computations on the same Shot
        sh = build.shot(spec)
        calc = build.calculator({"max_calc_step_size_feet": case["h"]})
        build.fire(calc, sh, case["R"], case["step"])
        new_ws = [list(w) for w in ws]
        for w_obj, w in zip(sh._winds if ws else [], new_ws):
            e = case["edit"]
            if e == "mirror":
                w[1] = -w[1]
                w_obj.direction_from = pb.Angular.Radian(w[1])
            elif e == "calm":
                w[0] = 0.0
                w_obj.velocity = pb.Velocity.FPS(0.0)
            elif e == "speed":
                w[0] = 60.0 * case["val"]
                w_obj.velocity = pb.Velocity.FPS(w[0])
            elif e == "direction":
                w[1] = (2 * case["val"] - 1) * math.pi
                w_obj.direction_from = pb.Angular.Radian(w[1])
            elif e == "redisplay":
                # showing a quantity in another unit changes no magnitude (C13): only every other wind, so that the
                # displayed numbers of the list are in different units afterwards
                if (sh._winds.index(w_obj) % 2) == 0:
                    w_obj.until_distance << pb.Unit[case.get("unit", "Meter")]
                    w_obj.velocity << pb.Unit.KMH
                    w_obj.direction_from << pb.Unit.Mil
            else:
                w[2] = 10.0 + case["val"] * 2 * R
                w_obj.until_distance = pb.Distance.Foot(w[2])
        after_rows, _ = build.fire(calc, sh, case["R"], case["step"])
        fresh, _ = _run(case, dict(spec, winds=new_ws))
        _same(r, "C12:in-place-edit-of-wind-ignored", build.rows_raw(after_rows), fresh,
              f"winds {ws} edited in place ({case['edit']}) to {new_ws} vs a fresh shot with those winds")
        nt = bool(ws) and any(w[0] > 1.0 for w in ws)
    r.nontrivial = bool(nt)
    return r


def parts(tier):
    return [Part("relations", strategy=_case(), check=check, n={"quick": 2400, "thorough": 120000})]


MANIFEST = {
    "technique": "Hypothesis-generated wind lists and shots; metamorphic relations (permutation, null winds, beyond-last, split, causality + sensitivity, mirror, sign rules, in-place edit vs fresh objects)",
    "text": "Each generated case applies one metamorphic relation and compares raw rows: order-independence, None/[]/zero-speed equivalence, nothing beyond the last segment, split invariance, "
            "rows up to d unchanged by changes beyond d (and a change beyond d does show), mirror negates windage only, left wind deflects right, head/tail change time and drop in opposite senses. Exploration level.",
    "note": "quantitative 'which segment applies where' is C01's reference comparison; split points keep 2 steps from boundaries",
}
