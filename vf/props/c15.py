"""C15 - Event rows mark each sight-line and sonic crossing once, within one step."""
import math
from hypothesis import strategies as st

from .. import lib, gen, build
from ..core import Part, Res

pb = lib.pb
D = pb.Distance

ID = "C15"
RULE = ("generated shots with the sight above / on / below the bore, barrel above or below the sight line, look -45..45 deg, "
        "cant, supersonic / transonic / subsonic launches, plus a 'lofted' class (elevation 60..88 deg, very low drag, high "
        "station, coarse step) whose projectile falls back through Mach 1 a second time; requests with extra_data over "
        "generated ranges, steps and time steps, some with tight limits ending in RangeError; a step trace of the same "
        "shot provides the integration points from which the expected events are derived independently; non-trivial = "
        ">= 2 events of different kinds, or a zero event with look != 0, or >= 2 Mach events; distinct = distinct case dicts; in 4 of 7 cases the calculator under test has a past (build.calculator prior: extra-data fire / "
        "subsonic fire / zeroing / RangeError for another fixed shot)")
ASSUMPTIONS = ["the step trace is representative of the request's integration points (what is recorded does not change what is computed: C11)",
               "a launch exactly on the sight line (muzzle height 0) is a don't-care for the first crossing",
               "the terminal row of a RangeError run is not a loop-top point and is excluded from the event model, but must not repeat a zero flag"]

ZU, ZD, MA, RG = 1, 2, 4, 8


@st.composite
def _case(draw):
    cls = draw(st.sampled_from(["general", "general", "general", "general", "transonic", "transonic", "transonic", "lofted",
                                "range-at-event", "range-at-event"]))
    cfg = {}
    if cls == "lofted":
        # region found by probing: very low drag, fast, steep, high station, room to fall back into dense air
        spec = {"table": "TableG1", "bc": draw(st.floats(2.8, 4.5)),
                "mv": draw(st.floats(1600.0, 2400.0)), "wdl": None, "sh": draw(st.sampled_from([2.0, 0.0, -2.0])), "twist": 0.0, "zero": 0.0,
                "look": 0.0, "rel": draw(st.floats(70.0, 88.0)) * gen.DEG, "cant": 0.0,
                "atmo": {"kind": "icao", "alt": draw(st.floats(6000.0, 12000.0))}, "winds": None}
        cfg = {"max_calc_step_size_feet": 4.0, "cMaximumDrop": -draw(st.floats(9000.0, 14900.0)), "cMinimumVelocity": 0.0}
        R = 2e5
        step = draw(st.sampled_from([500.0, 2000.0, 1e4]))
    else:
        R = math.exp(draw(st.floats(math.log(100.0), math.log(4000.0))))
        mvc = ("transonic",) if cls == "transonic" else ("subsonic", "transonic", "rifle")
        spec = draw(gen.shot(look_max_deg=45.0, rel_deg=(-2.0, 10.0), range_ft=R, max_winds=2, mv_classes=mvc, max_alt=9000.0))
        if draw(st.integers(0, 3)) == 0:
            spec["zero"] = draw(st.floats(-0.5, 1.0)) * gen.DEG
        lim = draw(st.sampled_from(["none", "none", "none", "drop", "velocity"]))
        if lim == "drop":
            cfg["cMaximumDrop"] = -draw(st.floats(0.5, 50.0))
        elif lim == "velocity":
            cfg["cMinimumVelocity"] = spec["mv"] * draw(st.floats(0.6, 0.98))
        cfg["max_calc_step_size_feet"] = draw(st.sampled_from([0.5, 0.5, 1.0, 2.0]))
        step = R / draw(st.floats(1.0, 30.0))
        if draw(st.integers(0, 5)) == 0:
            # record step below the integration step: several record distances fall inside the step in which an event is
            # detected - the event is still one event (short ranges keep the row count in the thousands)
            R = min(R, draw(st.floats(60.0, 400.0)))
            step = cfg["max_calc_step_size_feet"] / 2.0 * draw(st.floats(0.12, 0.95))
            cls = cls + "+record-step-below-integration-step"
    case = {"cls": cls, "shot": spec, "R": R, "step": step, "ts": draw(st.sampled_from([0.0, 0.0, 0.02, 0.2])), "config": cfg,
            "prior": draw(gen.prior())}
    if cls.startswith("transonic") and draw(st.integers(0, 3)) == 0:
        # launch a hair above the local speed of sound, so that the sonic crossing happens inside the first integration steps
        # (the muzzle speed is set by the check to (1 + excess) x the station's speed of sound: input placement, not an oracle)
        case["launch_mach_excess"] = draw(st.sampled_from([1e-6, 1e-5, 3e-5, 1e-4, 3e-4, 1e-3]))
    if cls == "range-at-event":   # (not combined with the small record step: the range is re-placed by the check)
        # the requested range is placed inside the step in which one of the shot's events happens (decided by the check from
        # a preliminary trace of the same shot: a deterministic function of the case)
        case["event_pick"] = draw(st.integers(0, 5))
        case["frac"] = draw(st.floats(0.02, 0.98))
        case["divisor"] = draw(st.sampled_from([1.0, 3.7, 2.3, 10.0, 4.0]))
    return case


def _model(tr, look, y0):
    """expected events from the integration points: [(index, flag)]"""
    ev = []
    seen_up = y0 >= 0
    seen_down = False
    prev_m = 0.0
    tl = math.tan(look)
    for i, p in enumerate(tr):
        if p.x > 0:
            refh = p.x * tl
            if not seen_up:
                if p.y >= refh:
                    ev.append((i, ZU))
                    seen_up = True
            elif not seen_down:
                if p.y < refh:
                    ev.append((i, ZD))
                    seen_down = True
        if prev_m > 1 >= p.mach:
            ev.append((i, MA))
        prev_m = p.mach
    return ev


def check(case):
    r = Res()
    spec, cfg = case["shot"], case["config"]
    r.label("class:" + case["cls"])
    if case.get("launch_mach_excess"):
        c_station = build.atmo(spec).mach >> pb.Velocity.FPS
        spec = dict(spec, mv=c_station * (1.0 + case["launch_mach_excess"]), powder=None)
        r.label("launch-just-above-mach-1")
    look = spec.get("look", 0.0)
    sh_ft = spec.get("sh", 0.0) / 12.0
    y0 = -math.cos(spec.get("cant", 0.0)) * sh_ft
    barrel_below = (spec.get("rel", 0.0) + spec.get("zero", 0.0)) * math.cos(spec.get("cant", 0.0)) < 0
    # the trace runs a few steps past the requested range: an event whose crossing lies in the last step before the range
    # end is detected at the first point beyond it, which the solver still visits (loop bound range + min_step)
    h_cfg = cfg.get("max_calc_step_size_feet", 0.5)
    R_req = case["R"]
    if case["cls"].startswith("range-at-event") and "event_pick" in case:
        pre, perr = build.trace(build.calculator(cfg), build.shot(spec), case["R"], extra=True)
        pre = pre[:len(pre) - (1 if perr is not None else 0)]
        pre_ev = _model(pre, look, y0)
        pre_ev = [(i, f) for i, f in pre_ev if i >= 3]
        if not pre_ev:
            r.label("range-at-event:no-event")
            return r
        i, f = pre_ev[case["event_pick"] % len(pre_ev)]
        R_req = pre[i - 1].x + case["frac"] * (pre[i].x - pre[i - 1].x)
        case = dict(case, R=R_req, step=R_req / case["divisor"])
        r.label("range-inside-event-step")
    min_step = min(h_cfg / 2.0, case["step"])
    tr, terr = build.trace(build.calculator(cfg), build.shot(spec), R_req + 4.0 * h_cfg, extra=True)
    n = len(tr) - (1 if terr is not None else 0)
    pts = tr[:n]
    if any(pts[i + 1].x < pts[i].x for i in range(len(pts) - 1)):
        r.label("out-of-domain:moves-backward")
        return r
    ev = _model(pts, look, y0)
    # the flag combination the library pre-sets when the muzzle is below the line and the barrel points below it suppresses
    # ZERO_DOWN, which cannot occur without a ZERO_UP first: same events
    if y0 == 0:
        ev = [e for e in ev if not (e[1] == ZD and e[0] <= 2)]  # don't-care
    # events the request must contain: detection point inside the solver's loop bound; events it may contain in addition:
    # detection point up to one ground step further (a tail wind stretches the last step)
    ev_all = ev
    ev = [(i, f) for i, f in ev_all if pts[i].x <= R_req + min_step * (1 - 1e-9)]
    ev_may = [(i, f) for i, f in ev_all if pts[i].x <= R_req + min_step + (pts[i].x - pts[i - 1].x)]
    if terr is None:
        pts_chk = [p for p in pts if p.x <= R_req + 3.0 * h_cfg]
    else:
        pts_chk = pts
    # 1. the trace's own flags
    got = [(i, f) for i, p in enumerate(pts_chk) for f in (ZU, ZD, MA) if p.flag & f]
    ev_trace = [(i, f) for i, f in ev_all if i < len(pts_chk)]
    if y0 == 0:
        got = [e for e in got if not (e[1] == ZD and e[0] <= 2)]
    if got != ev_trace:
        miss = [e for e in ev_trace if e not in got]
        extra = [e for e in got if e not in ev_trace]
        kind = lambda f: {ZU: "zero-up", ZD: "zero-down", MA: "mach"}[f]
        if miss:
            i, f = miss[0]
            r.bad(f"C15:event-not-flagged:{kind(f)}", f"integration point {i} (x={pts[i].x!r} ft, t={pts[i].t!r} s) is a {kind(f)} crossing "
                  f"(muzzle height {y0!r} ft, barrel {'below' if barrel_below else 'above'} the sight line) but carries flag {pts[i].flag}",
                  expected=[(i, kind(f)) for i, f in ev][:6], got=[(i, kind(f)) for i, f in got][:6])
        else:
            i, f = extra[0]
            r.bad(f"C15:spurious-event:{kind(f)}", f"integration point {i} (x={pts[i].x!r} ft) is flagged {kind(f)} but is no such crossing "
                  f"(muzzle height {y0!r} ft, barrel {'below' if barrel_below else 'above'} the sight line)",
                  expected=[(i, kind(f)) for i, f in ev][:6], got=[(i, kind(f)) for i, f in got][:6])
    if terr is not None:
        last = tr[-1]
        for f, nm in ((ZU, "zero-up"), (ZD, "zero-down")):
            if last.flag & f and any(p.flag & f for p in pts):
                r.bad(f"C15:duplicate-zero-flag-on-terminal-row:{nm}", f"terminal row repeats the {nm} flag")
    # 2. the request (possibly on a calculator whose previous run ended supersonic / subsonic / in an error)
    calc = build.calculator(cfg, prior=case.get("prior"))
    if case.get("prior"):
        r.label("calculator-used-before:" + case["prior"])
    sh = build.shot(spec)
    try:
        hit = calc.fire(sh, D.Foot(case["R"]), D.Foot(case["step"]), extra_data=True, time_step=case["ts"])
        rows, err = list(hit.trajectory), None
    except pb.RangeError as e:
        rows, err, hit = list(e.incomplete_trajectory), e, None
        r.label("range-error")
    body = rows[:-1] if err is not None else rows
    flagged = [(row, f) for row in body for f in (ZU, ZD, MA) if int(row.flag) & f]
    if y0 == 0:
        flagged = [(row, f) for row, f in flagged if not (f == ZD and row.time <= pts[min(2, len(pts) - 1)].t)]
    kind = lambda f: {ZU: "zero-up", ZD: "zero-down", MA: "mach"}[f]
    fk = [f for _, f in flagged]
    if fk[:len(ev)] != [f for _, f in ev] or fk != [f for _, f in ev_may][:len(fk)]:
        r.bad("C15:request-events-differ-from-crossings", f"request rows carry events {[kind(f) for _, f in flagged]}, the trajectory's "
              f"crossings detected within the range are {[kind(f) for _, f in ev]}"
              + (f" (optionally followed by {[kind(f) for _, f in ev_may[len(ev):]]})" if len(ev_may) > len(ev) else ""),
              model=[(i, kind(f), pts[i].x) for i, f in ev_may][:8], range=R_req)
    else:
        ev = ev_may[:len(fk)]
        tl = math.tan(look)
        for (row, f), (i, _) in zip(flagged, ev):
            a, b = pts[i - 1], pts[i]
            if not (a.t - 1e-12 <= row.time <= b.t + 1e-12):
                r.bad(f"C15:event-row-not-within-one-step:{kind(f)}", f"{kind(f)} row at t={row.time!r} s, the crossing happens between "
                      f"t={a.t!r} and t={b.t!r}")
                break
            if f in (ZU, ZD):
                tda = (a.y - a.x * tl) * math.cos(look)
                tdb = (b.y - b.x * tl) * math.cos(look)
                if abs(row.target_drop >> D.Foot) > abs(tdb - tda) + 1e-9:
                    r.bad(f"C15:event-row-far-from-sight-line:{kind(f)}", f"{kind(f)} row is {row.target_drop >> D.Foot!r} ft from the sight line, "
                          f"one step changes it by {abs(tdb - tda)!r} ft")
                    break
            else:
                # the flagged row is the integration point after the crossing or the interpolated record row inside the
                # crossing step, so its Mach number lies within that step's deceleration of 1
                if not (min(a.mach, b.mach) - 1e-9 <= row.mach <= max(a.mach, b.mach) + 1e-9):
                    r.bad("C15:mach-row-outside-step", f"mach row has Mach {row.mach!r}, the step goes from {a.mach!r} to {b.mach!r}")
                    break
    # 3. order, zeros()
    for i in range(len(rows) - 1):
        if rows[i + 1].time < rows[i].time:
            r.bad("C15:rows-out-of-order", f"rows {i},{i + 1}: t {rows[i].time!r},{rows[i + 1].time!r}; x {rows[i].distance >> D.Foot!r},{rows[i + 1].distance >> D.Foot!r}")
            break
    if hit is not None:
        zr = [row for row in rows if int(row.flag) & 3]
        try:
            z = hit.zeros()
            if not zr or len(z) != len(zr) or any(a is not b and build.row_raw(a) != build.row_raw(b) for a, b in zip(z, zr)):
                r.bad("C15:zeros()", f"zeros() returned {len(z)} rows, {len(zr)} rows carry a zero flag")
        except ArithmeticError:
            if zr:
                r.bad("C15:zeros()", f"zeros() raised although {len(zr)} rows carry a zero flag")
    kinds = {f for _, f in ev}
    nmach = sum(1 for _, f in ev if f == MA)
    r.nontrivial = len(kinds) >= 2 or (look != 0 and (ZU in kinds or ZD in kinds)) or nmach >= 2
    r.label(f"events:{len(ev)}", f"mach-events:{min(nmach, 2)}", "sight-below-bore" if y0 > 0 else "sight-on-bore" if y0 == 0 else "sight-above-bore",
            "barrel-below-line" if barrel_below else "barrel-above-line")
    return r


def parts(tier):
    return [Part("events", strategy=_case(), check=check, n={"quick": 960, "thorough": 60000})]


MANIFEST = {
    "technique": "Hypothesis-generated shots/requests; independent event model (sight-line and sonic crossings) computed from a step trace of the same shot; 1-1 correspondence and one-step bounds on the request's flagged rows",
    "text": "Flags on every integration point equal the crossing model (zero-up/down at most once, Mach every time incl. re-acceleration); the request's flagged rows correspond 1-1 to the crossings, lie inside the crossing step "
            "(target_drop <= one step's change, Mach within the crossing step's own range), rows in time order, zeros() consistent. Exploration level.",
    "note": "trace obtained through the public API (huge record step + tiny time step); launch exactly on the sight line is a don't-care",
}
