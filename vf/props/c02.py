"""C02 - Zeroing returns an elevation that actually hits the point of aim."""
import math
from hypothesis import strategies as st

from .. import lib, gen, build
from ..core import Part, Res

pb = lib.pb
D, A = pb.Distance, pb.Angular

ID = "C02"
RULE = ("un-canted generated shots: any shipped/custom table, BC, slow to fast, sight height -4..6 in (0 included), look angle in "
        "(-60, 60) deg (mass at 0, +-1..10, +-10..60), zero look-distance 30 ft..4500 ft log-uniform, 0..2 wind segments, stored zero "
        "0 / +-1 deg / up to +-10 deg, default config or a smaller step / looser accuracy / fewer iterations; reachability is decided "
        "by running the shot: (i) sight-line launch reaches the horizontal distance, (ii) elevations look+{0..30 deg} bracket the aim "
        "point with a well-conditioned low-arc solution; non-trivial = reachable-with-margin and (|look| > 1 deg or wind or distance > "
        "900 ft or stored zero != 0); distinct = distinct case dicts; histories: calculator used before for another sight line, a far "
        "failed attempt first, the same Shot object zeroed at the same distance before one of its fields was edited in place")
ASSUMPTIONS = ["'one integration step of travel' = calc_step + the largest ground advance of one step near the target (measured on a step trace), x1.02",
               "the 'does not fail' clause is asserted only for targets with a bracketed, well-conditioned solution (reachable-with-margin), a subset of the statement's domain",
               "miss measured as target_drop (perpendicular distance from the sight line) of the row at the zero distance"]


@st.composite
def _case(draw):
    look = draw(st.one_of(st.just(0.0), st.floats(-10.0, 10.0), st.floats(-60.0, 60.0), st.sampled_from([5.0, -38.0, 30.0, 45.0, 55.0, -55.0])))
    Dz = math.exp(draw(st.floats(math.log(30.0), math.log(4500.0))))
    if draw(st.integers(0, 2)):
        Dz = min(Dz, 1800.0)
    spec = draw(gen.shot(look_max_deg=0.0, rel_deg=(0.0, 0.0), cant=False, max_winds=2, range_ft=Dz, powder=False,
                         mv_classes=("subsonic", "transonic", "rifle", "rifle")))
    spec["look"] = look * gen.DEG
    z = draw(st.sampled_from(["0", "0", "0", "0", "0", "0", "0", "1", "1", "10"]))
    spec["zero"] = 0.0 if z == "0" else draw(st.floats(-1.0, 1.0)) * gen.DEG if z == "1" else draw(st.floats(-10.0, 10.0)) * gen.DEG
    cfg = {}
    c = draw(st.sampled_from(["default", "default", "default", "step", "accuracy", "iterations", "tiny-accuracy"]))
    if c == "step":
        cfg["max_calc_step_size_feet"] = draw(st.sampled_from([0.1, 0.25, 1.0, 2.0]))
    elif c == "accuracy":
        cfg["cZeroFindingAccuracy"] = 10 ** draw(st.floats(-5.0, -2.0))
    elif c == "tiny-accuracy":
        # an accuracy below the solver's own noise can never be met: the attempt (and any retry) must fail cleanly
        cfg["cZeroFindingAccuracy"] = 10 ** draw(st.floats(-14.0, -8.0))
        if draw(st.booleans()):
            cfg["cMaxIterations"] = draw(st.integers(2, 12))
    elif c == "iterations":
        cfg["cMaxIterations"] = draw(st.one_of(st.integers(20, 40), st.integers(1, 4)))
    return {"shot": spec, "D": Dz, "config": cfg, "via": draw(st.sampled_from(["set_weapon_zero", "barrel_elevation_for_target"])),
            # history: the calculator may have been used before for a shot along another sight line
            "used_before_look_deg": draw(st.one_of(st.none(), st.floats(-50.0, 50.0))),
            # history: an attempt at a target far out of reach on the same calculator and the same Shot object comes first
            "fail_first_ft": draw(st.one_of(st.none(), st.none(), st.none(), st.none(), st.none(), st.floats(6000.0, 12000.0))),
            # history: the same Shot object was zeroed at the same distance on the same calculator while one of its fields
            # still had another value; the field is then edited in place
            "rezero_after_edit": draw(st.sampled_from([None, None, None, None, "look", "winds", "mv", "sight_height", "atmo"]))}


def _height_at(calc, spec, elev_total, Rh):
    """height (ft) at horizontal distance Rh when the barrel points at total elevation elev_total; None if not reached"""
    s = dict(spec, zero=elev_total - spec["look"], rel=0.0)
    rows, err = build.fire(calc, build.shot(s), Rh + 5.0, Rh)
    for row in rows:
        if abs((row.distance >> D.Foot) - Rh) <= 1e-6 * Rh:
            return row.height >> D.Foot
    return None


def check(case):
    r = Res()
    spec, cfg, Dz = case["shot"], case["config"], case["D"]
    look = spec["look"]
    Rh = Dz * math.cos(look)
    aim_y = Dz * math.sin(look)
    h = cfg.get("max_calc_step_size_feet", 0.5)
    acc = cfg.get("cZeroFindingAccuracy", 0.000005)
    n_it = cfg.get("cMaxIterations", 20)
    calc_step = h / 2
    r.label("look:" + ("0" if look == 0 else "<=10" if abs(look) <= 10 * gen.DEG else "<=45" if abs(look) <= 45 * gen.DEG else ">45"),
            "wind" if spec.get("winds") else "calm")
    calc = build.calculator(cfg)
    if case.get("used_before_look_deg") is not None:
        build.fire(calc, build.shot(dict(spec, look=case["used_before_look_deg"] * gen.DEG, winds=None)), 40.0, 20.0)
        r.label("calculator-used-before")
    sh = build.shot(spec)
    edit = case.get("rezero_after_edit")
    if edit:
        was = {"look": dict(look=look + (8.0 if look < 0 else -8.0) * gen.DEG), "winds": dict(winds=[[30.0, math.pi / 2, 1e8]]),
               "mv": dict(mv=spec["mv"] * 0.7), "sight_height": dict(sh=spec.get("sh", 0.0) + 3.0),
               "atmo": dict(atmo={"kind": "icao", "alt": 8000.0})}[edit]
        sh = build.shot(dict(spec, **was))
        try:
            calc.set_weapon_zero(sh, D.Foot(Dz))
        except (pb.ZeroFindingError, pb.RangeError):
            pass
        if edit == "look":
            sh.look_angle = pb.Angular.Radian(look)
        elif edit == "winds":
            sh.winds = build.winds(spec)
        elif edit == "mv":
            sh.ammo.mv = pb.Velocity.FPS(spec["mv"])
        elif edit == "sight_height":
            sh.weapon.sight_height = D.Inch(spec.get("sh", 0.0))
        else:
            sh.atmo = build.atmo(spec)
        sh.weapon.zero_elevation = pb.Angular.Radian(spec["zero"])
        r.label("rezero-after-in-place-edit:" + edit)
        if build.snapshot_shot(sh) != build.snapshot_shot(build.shot(spec)):
            raise AssertionError("harness: edited shot does not match the case")
    if case.get("fail_first_ft") is not None:
        snap0 = build.snapshot_shot(sh)
        try:
            calc.barrel_elevation_for_target(sh, D.Foot(case["fail_first_ft"]))
            r.label("far-attempt:succeeded")
        except (pb.ZeroFindingError, pb.RangeError):
            r.label("far-attempt:failed")
        if build.snapshot_shot(sh) != snap0:
            r.bad("C02:elevation-query-mutates-shot", "an elevation query for a far target changed the shot")
    before = build.snapshot_shot(sh)
    zero_unit_before = sh.weapon.zero_elevation.units
    raised = None
    ret = None
    try:
        if case["via"] == "set_weapon_zero":
            ret = calc.set_weapon_zero(sh, D.Foot(Dz))
        else:
            ret = calc.barrel_elevation_for_target(sh, D.Foot(Dz))
    except (pb.ZeroFindingError, pb.RangeError) as e:
        raised = e
    after = build.snapshot_shot(sh)
    # ---- (c) a failed attempt leaves everything untouched; success changes nothing but the stored zero
    if raised is not None or case["via"] != "set_weapon_zero":
        if after != before or sh.weapon.zero_elevation.units != zero_unit_before:
            diff = [k for k in before if before[k] != after[k]]
            what = "failed attempt" if raised is not None else "barrel_elevation_for_target"
            r.bad("C02:stored-zero-changed-by-failed-attempt" if raised is not None else "C02:elevation-query-mutates-shot",
                  f"{what} changed {diff or 'the display unit of the stored zero'} (stored zero {before['weapon'][2]!r} -> {after['weapon'][2]!r})")
    else:
        b2 = dict(before, weapon=(before["weapon"][0], before["weapon"][1], None))
        a2 = dict(after, weapon=(after["weapon"][0], after["weapon"][1], None))
        if a2 != b2:
            r.bad("C02:zeroing-changes-other-fields", f"set_weapon_zero changed {[k for k in b2 if b2[k] != a2[k]]}")
        if after["weapon"][2] != ret.raw_value:
            r.bad("C02:stored-zero-is-not-returned-value", f"stored {after['weapon'][2]!r}, returned {ret.raw_value!r}")

    if raised is None:
        # ---- (a)/(b)/(d): fire back with the returned elevation and no further hold-over
        if ret.raw_value < 0:
            r.label("returned:zero-below-sight-line")
        s2 = dict(spec, zero=ret.raw_value, rel=0.0)
        calc2 = build.calculator(cfg)
        rows, err = build.fire(calc2, build.shot(s2), Rh + 5.0, Rh)
        row = next((x for x in rows if abs((x.distance >> D.Foot) - Rh) <= 1e-6 * max(Rh, 1.0)), None)
        if row is None:
            r.bad("C02:returned-angle-does-not-reach-target", f"fired with the returned zero {math.degrees(ret.raw_value)!r} deg the trajectory "
                  f"does not reach {Rh!r} ft ({err.reason if err else 'no row'})")
            return r
        tr, _ = build.trace(build.calculator(cfg), build.shot(s2), Rh + 5.0)
        near = [(a, b) for a, b in zip(tr, tr[1:]) if b.x >= Rh - 3.0]
        dx_max = max((b.x - a.x for a, b in near), default=calc_step)
        s_travel = (calc_step + dx_max) * 1.02
        slope = abs(math.tan(row.angle.raw_value) - math.tan(look)) * math.cos(look)
        vx = (row.velocity >> pb.Velocity.FPS) * math.cos(row.angle.raw_value)
        g = abs(cfg.get("cGravityConstant", -32.17405))
        curv = g * s_travel ** 2 / max(vx * vx, 1.0)
        bound = acc + s_travel * slope + curv
        miss = abs(row.target_drop >> D.Foot)
        r.target = miss / bound
        r.info["miss_over_bound"] = miss / bound
        if miss > bound:
            # mechanism predicate of root cause 1: miss = (absolute trajectory slope) x overshoot of the sampled point
            abs_slope = abs(math.tan(row.angle.raw_value))
            xf = next((p.x for p in tr if p.x > Rh + calc_step), Rh + calc_step + dx_max)
            expl = abs_slope * (xf - Rh) * math.cos(look)
            key = "C02:misses-aim-point"
            if look != 0 and abs(miss - expl) <= 0.25 * expl + 4 * acc:
                key = "C02:aim-offset:overshoot-times-absolute-slope"
            r.bad(key, f"look {math.degrees(look)!r} deg, zero distance {Dz!r} ft: firing with the returned zero misses the aim point by {miss!r} ft "
                  f"(bound {bound!r}: accuracy {acc!r} + step travel {s_travel!r} x relative slope {slope!r} + {curv!r})",
                  miss=miss, bound=bound)
        reach_margin = True
    else:
        # ---- the call failed: was the target reachable with margin?
        r.label("raised:" + type(raised).__name__)
        c3 = build.calculator(dict(cfg))
        base = _height_at(c3, spec, look, Rh)
        reach_margin = False
        break_sens = None
        if base is not None:
            prev_e, prev_y = 0.0, base
            for e_deg in (0.5, 2.0, 5.0, 10.0, 20.0, 30.0):
                if abs(look) + e_deg * gen.DEG > 80 * gen.DEG:
                    break
                y = _height_at(c3, spec, look + e_deg * gen.DEG, Rh)
                if y is None:
                    break
                if (prev_y - aim_y) <= 0 <= (y - aim_y):
                    sens = (y - prev_y) / ((e_deg - prev_e) * gen.DEG)
                    if sens >= 0.3 * Rh:
                        reach_margin = True
                    break_sens = sens
                    break
                prev_e, prev_y = e_deg, y
            if base - aim_y > 0:
                # sight-line launch already above the aim point (bore above the sight, short distance): the zero lies
                # *below* the sight line - bracket it downwards in the same way
                reach_margin = False
                prev_e, prev_y = 0.0, base
                for e_deg in (0.5, 2.0, 5.0):
                    y = _height_at(c3, spec, look - e_deg * gen.DEG, Rh)
                    if y is None:
                        break
                    if (y - aim_y) <= 0 <= (prev_y - aim_y):
                        sens = (prev_y - y) / ((e_deg - prev_e) * gen.DEG)
                        if sens >= 0.3 * Rh:
                            reach_margin = True
                            r.label("raised:zero-below-sight-line")
                        break_sens = sens
                        break
                    prev_e, prev_y = e_deg, y
        if reach_margin and (n_it < 20 or acc < 5e-6):
            r.label("few-iterations-allowed-to-fail")   # a calculator capped below the default may legitimately give up
        elif reach_margin:
            steep = abs(look) > 5 * gen.DEG
            # mechanism predicate of the recorded finding: the finder's *first* trial uses the stored zero as its starting
            # elevation; if that points below the sight line the trial itself leaves the calculator's limits before it
            # reaches the distance, and the RangeError of that trial is passed on
            if isinstance(raised, pb.RangeError) and spec["zero"] < 0:
                start_rows, start_err = build.fire(c3, build.shot(dict(spec, rel=0.0)), Rh + calc_step, Rh + calc_step)
                if start_err is not None and start_err.reason == raised.reason:
                    r.bad("C02:fails-on-reachable-target:first-trial-from-stored-zero-leaves-limits",
                          f"look {math.degrees(look)!r} deg, zero distance {Dz!r} ft, stored zero {math.degrees(spec['zero'])!r} deg: {raised}")
                    return r
            # second recorded finding: the finder is a fixed-point iteration that assumes d(height)/d(elevation) =
            # distance / cos^2(look); for strongly curved (slow, high-drag, steep) trajectories the true sensitivity differs
            # by tens of percent, the error contracts only by a factor q per iteration (monotonically or alternating) and
            # the iteration runs out of iterations.  Predicate: continuing the iteration from where it stopped, three
            # consecutive errors shrink by a steady factor 0.25 <= q <= 0.9.
            if isinstance(raised, pb.ZeroFindingError) and raised.iterations_count >= n_it:
                e_it = raised.last_barrel_elevation.raw_value
                errs = []
                for _ in range(3):
                    y_it = _height_at(c3, spec, e_it, Rh)
                    if y_it is None:
                        break
                    errs.append(y_it - aim_y)
                    e_it -= errs[-1] / Rh * math.cos(look) ** 2
                if len(errs) == 3 and errs[0] != 0 and errs[1] != 0:
                    q1, q2 = abs(errs[1] / errs[0]), abs(errs[2] / errs[1])
                    if 0.25 <= q1 <= 0.9 and 0.25 <= q2 <= 0.9 and abs(q1 - q2) <= 0.15:
                        r.bad("C02:fails-on-reachable-target:fixed-point-iteration-too-slow",
                              f"look {math.degrees(look)!r} deg, zero distance {Dz!r} ft: {raised} (errors of the next iterates {errs}: "
                              f"contraction ~{q1:.2f} per iteration, {n_it} iterations)")
                        return r
            # third recorded finding: the solver switches wind at the first integration point at or beyond a boundary, so
            # the height at the zero distance is a sawtooth function of the elevation (it jumps whenever an integration
            # point crosses the boundary; the jump is the first-order wind-switch jitter of C01).  If the root falls
            # inside such a jump the iteration oscillates across it for ever.  Predicate: a wind boundary lies inside the
            # flight, and two consecutive iterates a few micro-radians apart have errors of opposite sign and comparable
            # size (a smooth function whose slope is below the assumed one cannot do that).
            if isinstance(raised, pb.ZeroFindingError) and raised.iterations_count >= n_it and \
                    any(0 < w[2] < Rh for w in (spec.get("winds") or [])) and any(w[0] > 0 for w in (spec.get("winds") or [])):
                e_a = raised.last_barrel_elevation.raw_value
                y_a = _height_at(c3, spec, e_a, Rh)
                if y_a is not None:
                    err_a = y_a - aim_y
                    e_b = e_a - err_a / Rh * math.cos(look) ** 2
                    y_b = _height_at(c3, spec, e_b, Rh)
                    if y_b is not None:
                        err_b = y_b - aim_y
                        if err_a * err_b < 0 and abs(e_a - e_b) < 1e-4 and min(abs(err_a), abs(err_b)) >= 0.5 * max(abs(err_a), abs(err_b)):
                            r.bad("C02:fails-on-reachable-target:limit-cycle-across-wind-switch-jump",
                                  f"look {math.degrees(look)!r} deg, zero distance {Dz!r} ft: {raised}; elevations {e_a!r} and {e_b!r} rad give errors "
                                  f"{err_a!r} and {err_b!r} ft (jump across zero)")
                            return r
            r.bad("C02:fails-on-reachable-target" + (":steep-look" if steep else ""),
                  f"look {math.degrees(look)!r} deg, zero distance {Dz!r} ft (config {cfg}): {type(raised).__name__}: {raised} although elevations "
                  f"between the sight line and +30 deg bracket the aim point with a well-conditioned solution")
        else:
            r.label("unreachable-or-marginal")
    if reach_margin and raised is None:
        r.label("reachable")
    r.nontrivial = raised is None and (abs(look) > gen.DEG or bool(spec.get("winds")) or Dz > 900.0 or spec["zero"] != 0.0)
    return r


def parts(tier):
    return [Part("zero", strategy=_case(), check=check, n={"quick": 1600, "thorough": 32000})]


MANIFEST = {
    "technique": "Hypothesis-generated un-canted shots and zero distances; fire-back validity predicate with a measured one-step bound; bracketing search to decide reachability when zeroing fails; before/after snapshots of the shot",
    "text": "A returned zero, fired back with no hold-over, passes the aim point within accuracy + one step of travel x relative slope (+ curvature); zeroing does not fail for targets with a bracketed well-conditioned solution; "
            "a failed attempt (and barrel_elevation_for_target in general) leaves the shot untouched; success changes only the stored zero, which equals the returned value. Exploration level.",
    "note": "reachability is decided by running the shot; the no-fail clause is asserted on the reachable-with-margin subset",
}
