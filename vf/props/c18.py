"""C18 - Configuration is honoured, local to its calculator, and parsed faithfully."""
import math
import os
import shutil
import tempfile
from hypothesis import strategies as st

from .. import lib, ref, gen, build
from ..core import Part, Res

pb = lib.pb
Unit = pb.Unit
D, V, A = pb.Distance, pb.Velocity, pb.Angular
from py_ballisticcalc.unit import _parse_unit, _parse_value  # noqa: E402

ID = "C18"
RULE = ("(settings) generated subsets of the 8 solver settings observed through their effects: step trace (first time stamp, "
        "air-relative advance per step), limits vs a lax-limit trace, gravity vs the vacuum closed form, iteration cap / "
        "accuracy via a Shot subclass counting integrations, defaults when omitted; (locality) RuleBasedStateMachine over "
        "set_global / invalid set_global / reset_globals / new calculator / probe with a model of each calculator's step; "
        "(parsing) every Unit member name and every alias of UnitAliases enumerated exhaustively x {original, lower, upper, "
        "title, swapcase} x {_parse_unit, PreferredUnits.set, _parse_value, pybc.toml via basicConfig}, plus generated "
        "per-character case masks, blanks and decimal prefixes, plus generated unknown names; non-trivial = config with "
        ">= 2 non-default keys (settings), a set between two creations (locality), a name not in canonical case or an alias "
        "(parsing); distinct = distinct case dicts / histories")
ASSUMPTIONS = ["observed step = 2 x first trace time stamp x launch speed (exact for the solver's dt = calc_step / speed without wind)",
               "slot names of PreferredUnits used as unit strings (e.g. 'distance') are a documented indirection and are not treated as unknown names",
               "decimal prefixes only (the value parser documents no exponent syntax); blanks are spaces"]

SLOT_OF_DIM = {"angular": "angular", "distance": "distance", "velocity": "velocity", "pressure": "pressure",
               "temperature": "temperature", "weight": "weight", "energy": "energy"}
SLOTS = ["angular", "distance", "velocity", "pressure", "temperature", "diameter", "length", "weight", "adjustment", "drop",
         "energy", "ogw", "sight_height", "target_height", "twist"]


def _dim_of(unit):
    return ref.DIMENSION[unit.name]


def _slots_snapshot():
    return {s: getattr(pb.PreferredUnits, s) for s in SLOTS}


# ===================================================================================================== (a) settings
@st.composite
def _settings_case(draw):
    cfg = {}
    if draw(st.booleans()):
        cfg["max_calc_step_size_feet"] = draw(st.one_of(st.floats(0.1, 7.5), st.sampled_from([0.25, 1.0, 2.0, 5.0]), st.floats(0.01, 0.1)))
    if draw(st.booleans()):
        cfg["cGravityConstant"] = -draw(st.floats(3.0, 60.0))
    if draw(st.booleans()):
        cfg["cMaxIterations"] = draw(st.integers(1, 8))
    if draw(st.booleans()):
        cfg["cZeroFindingAccuracy"] = 10 ** draw(st.floats(-7.0, -1.0))
    lim = draw(st.sampled_from(["none", "velocity", "drop", "altitude"]))
    spec = draw(gen.shot(custom=False, look_max_deg=10.0, rel_deg=(0.0, 4.0), max_winds=2, range_ft=1500.0, mbc=False,
                         mv_classes=("transonic", "rifle"), cant=False, atmo_kinds=("icao",), max_alt=5000.0))
    return {"config": cfg, "limit": lim, "limit_frac": draw(st.floats(0.2, 0.9)), "shot": spec, "R": draw(st.floats(300.0, 1500.0)),
            "chart": draw(st.one_of(st.none(), st.floats(0.05, 5.0)))}


def check_settings(case):
    r = Res()
    cfg = dict(case["config"])
    if case["chart"] is not None:
        cfg["chart_resolution"] = case["chart"]
    spec = case["shot"]
    h = cfg.get("max_calc_step_size_feet", 0.5)
    g = cfg.get("cGravityConstant", -32.17405)
    R = case["R"]
    # --- step: first time stamp without wind; air-relative advance with the generated winds
    calm = dict(spec, winds=None, powder=None)
    tr, _ = build.trace(build.calculator(cfg), build.shot(calm), 60.0)
    if len(tr) > 2:
        h_obs = 2 * tr[1].t * spec["mv"]
        if abs(h_obs - h) > 1e-9 * h:
            key = "C18:step:default-not-0.5" if "max_calc_step_size_feet" not in cfg else "C18:step:configured-step-not-used"
            r.bad(key, f"config {cfg}: first integration step lasts {tr[1].t!r} s at {spec['mv']!r} fps = step {h_obs!r} ft, expected {h!r}")
    trw, _ = build.trace(build.calculator(cfg), build.shot(dict(spec, twist=0.0)), min(R, 500.0))
    ws = sorted(spec.get("winds") or [], key=lambda w: w[2])
    vecs = [(w[0] * math.cos(w[1]), w[0] * math.sin(w[1])) for w in ws] + [(0.0, 0.0)]
    for a, b in zip(trw, trw[1:]):
        dt = b.t - a.t
        best = min(math.sqrt((b.x - a.x - wx * dt) ** 2 + (b.y - a.y) ** 2 + (b.w - a.w - wz * dt) ** 2) for wx, wz in vecs)
        if best > h * (1 + 1e-9):
            r.bad("C18:step:advance-exceeds-maximum", f"config {cfg}: a step advances {best!r} ft through the air, maximum step {h!r} ft")
            break
    # --- gravity: vacuum, closed form
    vac = dict(spec, atmo={"kind": "vacuum", "alt": 0.0, "t_c": 15.0}, winds=None, twist=0.0, powder=None, look=0.0, cant=0.0)
    rows, err = build.fire(build.calculator(cfg), build.shot(vac), min(R, 900.0), min(R, 900.0) / 3)
    if err is None:
        el = vac.get("rel", 0.0) + vac.get("zero", 0.0)
        v0x, v0y = spec["mv"] * math.cos(el), spec["mv"] * math.sin(el)
        y0 = -spec.get("sh", 0.0) / 12.0
        dt_max = (h / 2) / (spec["mv"] * 0.5)
        for row in rows[1:]:
            x = row.distance >> D.Foot
            t = x / v0x
            y = y0 + v0y * t + g * t * t / 2
            tol = abs(g) * t * dt_max + 1e-7
            if abs((row.height >> D.Foot) - y) > tol:
                key = "C18:gravity:default-not-standard" if "cGravityConstant" not in cfg else "C18:gravity:configured-value-not-used"
                r.bad(key, f"config {cfg}: vacuum height at {x!r} ft is {row.height >> D.Foot!r} ft, closed form with g={g!r} gives {y!r} (tol {tol:.2e})")
                break
    # --- limits: the RangeError appears exactly where a lax-limit trace first violates the configured limit
    if case["limit"] != "none":
        lax = dict(cfg, cMinimumVelocity=0.0, cMaximumDrop=-1e9, cMinimumAltitude=-1e9)
        trl, _ = build.trace(build.calculator(lax), build.shot(spec), R)
        k = max(2, int(case["limit_frac"] * (len(trl) - 1)))
        p = trl[k]
        alt0 = spec["atmo"]["alt"]
        lim_cfg = dict(cfg)
        if case["limit"] == "velocity":
            lim_cfg["cMinimumVelocity"] = p.v * (1 + 1e-9)
            first = next((i for i, q in enumerate(trl) if i and q.v < lim_cfg["cMinimumVelocity"]), None)
            lim_cfg.update(cMaximumDrop=-1e9, cMinimumAltitude=-1e9)
        elif case["limit"] == "drop":
            lim_cfg["cMaximumDrop"] = p.y + 1e-9 * abs(p.y) + 1e-12
            first = next((i for i, q in enumerate(trl) if i and q.y < lim_cfg["cMaximumDrop"]), None)
            lim_cfg.update(cMinimumVelocity=0.0, cMinimumAltitude=-1e9)
        else:
            lim_cfg["cMinimumAltitude"] = alt0 + p.y + 1e-9 * abs(alt0 + p.y) + 1e-12
            first = next((i for i, q in enumerate(trl) if i and alt0 + q.y < lim_cfg["cMinimumAltitude"]), None)
            lim_cfg.update(cMinimumVelocity=0.0, cMaximumDrop=-1e9)
        rows, err = build.fire(build.calculator(lim_cfg), build.shot(spec), R, R / 4)
        if first is None:
            if err is not None:
                r.bad(f"C18:limit:{case['limit']}:raises-without-violation", f"config {lim_cfg}: RangeError although the lax-limit trace never violates the limit")
        elif err is None:
            r.bad(f"C18:limit:{case['limit']}:ignored", f"config {lim_cfg}: no RangeError although integration point {first} "
                  f"(x={trl[first].x!r} ft, v={trl[first].v!r} fps, y={trl[first].y!r} ft) violates the configured {case['limit']} limit")
        else:
            last = rows[-1]
            if abs((last.distance >> D.Foot) - trl[first].x) > 1e-9 * max(1.0, trl[first].x) or abs(last.time - trl[first].t) > 1e-12 + 1e-9 * trl[first].t:
                r.bad(f"C18:limit:{case['limit']}:wrong-stop-point", f"config {lim_cfg}: stopped at x={last.distance >> D.Foot!r} ft t={last.time!r}, "
                      f"the first integration point violating the limit is x={trl[first].x!r} ft t={trl[first].t!r}")
        r.label("limit:" + case["limit"])
    # --- iteration cap / accuracy: count integrations through a Shot subclass
    zero_ft = min(R, 600.0)
    n_cap = cfg.get("cMaxIterations", 20)
    acc = cfg.get("cZeroFindingAccuracy", 0.000005)
    zspec = dict(spec, look=0.0, winds=None)
    csh = build.counting_shot(zspec)
    calc = build.calculator(cfg)
    raised = None
    try:
        calc.barrel_elevation_for_target(csh, D.Foot(zero_ft))
    except pb.ZeroFindingError as e:
        raised = e
    except pb.RangeError:
        raised = "range"
    n_int = csh._vf_reads
    if raised != "range":
        if n_int > n_cap:
            key = "C18:iterations:default-cap-not-20" if "cMaxIterations" not in cfg else "C18:iterations:cap-exceeded"
            r.bad(key, f"config {cfg}: zeroing ran {n_int} integrations, cap {n_cap}")
        if raised is not None:
            if not raised.zero_finding_error > acc:
                r.bad("C18:accuracy:raised-although-met", f"config {cfg}: ZeroFindingError with error {raised.zero_finding_error!r} <= accuracy {acc!r}")
            if raised.iterations_count != n_cap:
                r.bad("C18:iterations:raised-before-cap", f"config {cfg}: ZeroFindingError after {raised.iterations_count} iterations, cap {n_cap}")
            r.label("zero:raised")
        else:
            # returned: a run with a tighter accuracy may not need fewer integrations
            if "cZeroFindingAccuracy" in cfg and acc > 1e-5:
                csh2 = build.counting_shot(zspec)
                try:
                    build.calculator(dict(cfg, cZeroFindingAccuracy=acc / 1000.0, cMaxIterations=40)).barrel_elevation_for_target(csh2, D.Foot(zero_ft))
                    if csh2._vf_reads < n_int:
                        r.bad("C18:accuracy:not-used", f"accuracy {acc!r} needed {n_int} integrations, accuracy {acc / 1000.0!r} only {csh2._vf_reads}")
                except (pb.ZeroFindingError, pb.RangeError):
                    pass
            r.label("zero:returned")
    nondefault = len(case["config"]) + (1 if case["limit"] != "none" else 0)
    r.nontrivial = nondefault >= 2
    return r


# ----------------------------------------------------------------------------- step bound under extreme winds
@st.composite
def _lob_case(draw):
    h = draw(st.sampled_from([0.25, 0.5, 1.0, 2.0]))
    spec = {"table": draw(st.sampled_from(["TableG1", "TableGS", "TableG7"])), "bc": draw(st.floats(0.02, 0.3)), "mv": draw(st.floats(80.0, 400.0)),
            "wdl": None, "sh": 2.0, "twist": 0.0, "zero": 0.0, "look": 0.0,
            "rel": draw(st.one_of(st.floats(40.0, 90.0), st.sampled_from([90.0, 89.9, 85.0]))) * gen.DEG, "cant": 0.0,
            "atmo": {"kind": "icao", "alt": 0.0},
            "winds": [[draw(st.one_of(st.just(0.0), st.floats(0.0, 130.0), st.floats(20.0, 130.0))),
                       draw(st.one_of(st.just(math.pi), st.just(0.0), st.floats(2.4, 3.9), st.floats(-math.pi, math.pi))), 1e8]]}
    # the configured gravity enters the step rule too (a projectile at rest relative to the air is carried by gravity alone)
    g = draw(st.one_of(st.none(), st.none(), st.floats(10.0, 200.0), st.sampled_from([50.0, 81.33, 100.0, 160.0])))
    return {"shot": spec, "h": h, "R": draw(st.floats(50.0, 400.0)), "g": g}


def check_lob(case):
    """slow lobbed projectiles in strong winds: near the apex the air speed can be several times the ground speed"""
    r = Res()
    spec, h = case["shot"], case["h"]
    cfg = {"max_calc_step_size_feet": h, "cMinimumVelocity": 0.0, "cMaximumDrop": -200.0}
    if case.get("g") is not None:
        cfg["cGravityConstant"] = -case["g"]
        r.label("gravity>standard" if case["g"] > 32.17405 else "gravity<standard")
    sh = build.shot(spec)
    _, Exceeded = build.counting(sh.atmo, 400000)
    try:
        tr, _ = build.trace(build.calculator(cfg), sh, case["R"])
    except Exceeded:
        r.label("too-long")
        return r
    w = spec["winds"][0]
    wx, wz = w[0] * math.cos(w[1]), w[0] * math.sin(w[1])
    worst = 0.0
    ratio = 1.0
    for a, b in zip(tr, tr[1:]):
        dt = b.t - a.t
        adv = math.sqrt((b.x - a.x - wx * dt) ** 2 + (b.y - a.y) ** 2 + (b.w - a.w - wz * dt) ** 2)
        worst = max(worst, adv)
        if dt > 0:
            g = math.sqrt((b.x - a.x) ** 2 + (b.y - a.y) ** 2 + (b.w - a.w) ** 2)
            ratio = max(ratio, adv / max(g, 1e-9))
        if adv > h * (1 + 1e-9):
            r.bad("C18:step:advance-exceeds-maximum", f"config {cfg}: one step advances {adv!r} ft through the air (wind {w[0]!r} fps from {math.degrees(w[1])!r} deg, "
                  f"ground advance {math.sqrt((b.x - a.x) ** 2 + (b.y - a.y) ** 2 + (b.w - a.w) ** 2)!r} ft at x={a.x!r} ft)")
            break
    r.target = worst / h
    r.nontrivial = ratio > 2.0
    r.label("air/ground>2" if ratio > 2.0 else "air/ground<=2")
    return r


# ===================================================================================================== (b) locality machine
class Locality:
    MV = 1000.0

    def __init__(self):
        pb.reset_globals()
        self.global_step = 0.5
        self.calcs = []   # (calculator, expected step)
        self.cfg_objs = {}
        self.cfg_snap = {}
        self.set_between = False
        self.created_after_set = False

    def _probe(self, r, k):
        calc, exp, other = self.calcs[k]
        spec = {"table": "TableG7", "bc": 0.3, "mv": self.MV, "sh": 2.0, "atmo": {"kind": "icao", "alt": 0.0}, "winds": None}
        sh = build.shot(spec)
        _, Exceeded = build.counting(sh.atmo, 2000)
        try:
            tr, _ = build.trace(calc, sh, 12.0 * max(1.0, exp))
        except Exceeded:
            r.bad("C18:locality:calculator-step-changed", f"calculator {k} (created with step {exp!r} ft) needs more than 2000 steps for {12.0 * max(1.0, exp)!r} ft")
            return
        h_obs = 2 * tr[1].t * self.MV
        if abs(h_obs - exp) > 1e-9 * exp:
            r.bad("C18:locality:calculator-step-changed", f"calculator {k} integrates with step {h_obs!r} ft, it was created with {exp!r} ft "
                  f"(global now {self.global_step!r})")
            return
        # ... and its other settings: gravity (a level launch falls g dt^2 in the first step) and the iteration cap
        g_exp = other.get("cGravityConstant", -32.17405)
        g_obs = (tr[1].y - tr[0].y) / (tr[1].t ** 2)
        if abs(g_obs - g_exp) > 1e-5 * abs(g_exp):
            r.bad("C18:locality:calculator-gravity-changed", f"calculator {k} (settings {other}) falls with g = {g_obs!r} ft/s^2 in its first step, expected {g_exp!r}")
            return
        cap = other.get("cMaxIterations", 20)
        csh = build.counting_shot(dict(spec, twist=0.0))
        failed = False
        try:
            calc.barrel_elevation_for_target(csh, D.Foot(12.0 * max(1.0, exp)))
        except (pb.ZeroFindingError, pb.RangeError):
            failed = True
        if csh._vf_reads > cap:
            r.bad("C18:locality:calculator-iteration-cap-changed", f"calculator {k} (settings {other}) ran {csh._vf_reads} integrations to zero, "
                  f"its cap is {cap}")
        elif failed and "cMaxIterations" not in other and "cZeroFindingAccuracy" not in other:
            # an easy target a few steps away is found well inside the default 20 iterations
            r.bad("C18:locality:calculator-iteration-cap-changed", f"calculator {k} (settings {other}, default cap and accuracy) failed to zero at "
                  f"{12.0 * max(1.0, exp)!r} ft after {csh._vf_reads} integrations")

    def apply(self, op):
        r = Res()
        name, a = op["op"], op["args"]
        if name == "set_global":
            u = a["unit"]
            ft = a["ft"]
            if u is None:
                val = ref.convert(ft, "Foot", "Yard")  # bare number = preferred distance unit (yard)
                pb.set_global_max_calc_step_size(val)
                self.global_step = D.Yard(val) >> D.Foot
            else:
                q = Unit[u](ref.convert(ft, "Foot", u))
                pb.set_global_max_calc_step_size(q)
                self.global_step = q >> D.Foot
            self.set_between = bool(self.calcs)
        elif name == "set_invalid":
            before = pb.get_global_max_calc_step_size() >> D.Foot
            try:
                pb.set_global_max_calc_step_size(D.Foot(a["ft"]) if a["explicit"] else a["ft"])
            except ValueError:
                pass
            else:
                r.bad("C18:global-step:non-positive-accepted", f"set_global_max_calc_step_size({a['ft']!r}) was accepted")
            after = pb.get_global_max_calc_step_size() >> D.Foot
            if after != before:
                r.bad("C18:global-step:changed-by-rejected-value", f"global step {before!r} -> {after!r} after a rejected value")
                # put the previous value back so that the rest of the history stays meaningful (a zero step never advances)
                lib.tc_mod._globalMaxCalcStepSizeFeet = before
        elif name == "reset":
            pb.reset_globals()
            self.global_step = 0.5
            self.set_between = bool(self.calcs)
        elif name == "new_calc":
            if a.get("reuse") is not None and a["explicit"] is None:
                # the caller keeps one settings dict and hands the same object to several calculators
                key = a["reuse"] % 2
                if key not in self.cfg_objs:
                    self.cfg_objs[key] = ({"cMinimumVelocity": 10.0} if key else {"cGravityConstant": -32.0})
                    self.cfg_snap[key] = dict(self.cfg_objs[key])
                self.calcs.append((pb.Calculator(_config=self.cfg_objs[key]), self.global_step, dict(self.cfg_snap[key])))
                if self.cfg_objs[key] != self.cfg_snap[key]:
                    r.bad("C18:locality:caller-settings-dict-mutated", f"creating a calculator changed the caller's settings dict to {self.cfg_objs[key]}")
                    self.cfg_objs[key] = dict(self.cfg_snap[key])
            elif a["explicit"] is None:
                self.calcs.append((pb.Calculator(_config=dict(a["other"])) if a["other"] else pb.Calculator(), self.global_step, dict(a["other"])))
            else:
                self.calcs.append((pb.Calculator(_config=dict(a["other"], max_calc_step_size_feet=a["explicit"])), a["explicit"], dict(a["other"])))
            if self.set_between:
                self.created_after_set = True
            if len(self.calcs) > 5:
                self.calcs.pop(0)
        elif name == "probe" and self.calcs:
            self._probe(r, a["k"] % len(self.calcs))
        g = pb.get_global_max_calc_step_size() >> D.Foot
        if abs(g - self.global_step) > 1e-12 * self.global_step:
            r.bad("C18:global-step:getter-disagrees", f"get_global_max_calc_step_size() = {g!r} ft, model {self.global_step!r}")
        if name != "probe" and self.calcs and not r.violations:
            # every existing calculator keeps the step it was created with
            for k in range(len(self.calcs)):
                self._probe(r, k)
                if r.violations:
                    break
        return r

    def nontrivial(self):
        return self.created_after_set and len(self.calcs) >= 2

    def labels(self):
        return []

    def close(self):
        pb.reset_globals()


LOC_RULES = {
    "set_global": st.fixed_dictionaries({"ft": st.one_of(st.floats(0.05, 6.0), st.sampled_from([0.25, 1.0, 2.0])),
                                         "unit": st.one_of(st.none(), st.sampled_from(ref.UNITS_BY_DIM["distance"]))}),
    "set_invalid": st.fixed_dictionaries({"ft": st.one_of(st.just(0.0), st.floats(-10.0, 0.0), st.just(-0.0)), "explicit": st.booleans()}),
    "reset": st.just({}),
    "new_calc": st.fixed_dictionaries({"reuse": st.one_of(st.none(), st.integers(0, 1)), "explicit": st.one_of(st.none(), st.floats(0.1, 6.0)),
                                       "other": st.sampled_from([{}, {}, {"cMinimumVelocity": 10.0}, {"cGravityConstant": -30.0}, {"cMaxIterations": 1},
                                                                 {"cGravityConstant": -20.0, "cMaxIterations": 2, "cZeroFindingAccuracy": 1e-9}])}),
    "probe": st.fixed_dictionaries({"k": st.integers(0, 4)}),
}


# ===================================================================================================== (c) parsing
def _all_names():
    """enumeration names + the documented alias table (frozen copy in ref/unit_aliases_golden.json, so that an alias
    dropped from the library is noticed) + whatever further aliases the tree under test declares"""
    import json
    out = []
    for u in Unit:
        out.append((u.name, u.name, "enum-name"))
    gpath = os.path.join(os.path.dirname(os.path.dirname(os.path.dirname(os.path.abspath(__file__)))), "ref", "unit_aliases_golden.json")
    with open(gpath, encoding="utf-8") as fh:
        gold = [tuple(x) for x in json.load(fh)["aliases"]]
    seen = set()
    for al, un in gold:
        out.append((al, un, "alias"))
        seen.add((al, un))
    for aliases, u in pb.UnitAliases.items():
        for al in aliases:
            if (al, u.name) not in seen and ", " not in al:
                out.append((al, u.name, "alias"))
    return out


NAMES = _all_names()
KNOWN_LOWER = {n.lower() for n, _, _ in NAMES} | {n.strip().lower() for n, _, _ in NAMES}


def _variants(name):
    vs = [name, name.lower(), name.upper(), name.title(), name.swapcase()]
    out = []
    for v in vs:
        if v.lower() == name.lower() and v not in out:   # only 1-1 case mappings
            out.append(v)
    return out


def _check_name(r, text, unit_name, channels, tmpdir=None, number="1.5", pad=("", "")):
    want = Unit[unit_name]
    dim = ref.DIMENSION[unit_name]
    slot = SLOT_OF_DIM[dim]
    padded = pad[0] + text + pad[1]
    root = "Radian-falsy" if unit_name == "Radian" else None

    def key(channel, problem):
        al = text.strip().lower()
        if unit_name == "Radian" and problem in ("ignored", "rejected"):
            return "C18:parse:Radian-falsy"
        if al in ("oclock", "inchesper100yd") and problem in ("unresolved", "ignored", "rejected"):
            return f"C18:parse:no-alias:{unit_name}"
        if al in ("in/100yard", "inper100yd") and problem in ("unresolved", "ignored", "rejected"):
            return "C18:parse:alias-table-typo:in/100yard, inper100yd"
        return f"C18:parse:{channel}:{problem}:{unit_name}"

    if "parse_unit" in channels:
        got = _parse_unit(padded)
        if got is None or not isinstance(got, Unit):
            r.bad(key("_parse_unit", "unresolved"), f"_parse_unit({padded!r}) = {got!r}, expected Unit.{unit_name}")
        elif got != want:
            r.bad(f"C18:parse:_parse_unit:wrong-unit:{unit_name}", f"_parse_unit({padded!r}) = Unit.{got.name}, expected Unit.{unit_name}")
    if "set" in channels:
        pb.PreferredUnits.defaults()
        other = next(u for u in ref.UNITS_BY_DIM[dim] if u != unit_name) if len(ref.UNITS_BY_DIM[dim]) > 1 else unit_name
        setattr(pb.PreferredUnits, slot, Unit[other])
        pb.PreferredUnits.set(**{slot: padded})
        got = getattr(pb.PreferredUnits, slot)
        if got != want or not isinstance(got, Unit):
            r.bad(key("set", "ignored"), f"PreferredUnits.set({slot}={padded!r}) left the slot at {got!r}, expected Unit.{unit_name}")
        pb.PreferredUnits.defaults()
    if "parse_value" in channels:
        if dim == "angular" and abs(float(number)) > 5.0:
            # the angular type wraps values beyond one turn (12 o'clock, 360 degrees, ...): keep the prefix inside it
            number = f"{float(number) % 5.0:.3f}"
        s = number + pad[0] + text
        try:
            q = _parse_value(s, None)
            if q is None or q.units != want or abs(q.unit_value - float(number)) > 1e-12 * max(1.0, abs(float(number))):
                r.bad(f"C18:parse:_parse_value:wrong-result:{unit_name}", f"_parse_value({s!r}) = {q!r}")
            elif len(ref.UNITS_BY_DIM[dim]) > 1:
                # history: the caller re-displays the quantity it got (legal, C13) and parses the same string again
                other_u = next(u for u in ref.UNITS_BY_DIM[dim] if u != unit_name)
                q << Unit[other_u]
                q2 = _parse_value(s, None)
                if q2 is None or q2.units != want or abs(q2.unit_value - float(number)) > 1e-12 * max(1.0, abs(float(number))):
                    r.bad(f"C18:parse:_parse_value:second-parse-differs:{unit_name}", f"_parse_value({s!r}) after the first result was re-displayed in {other_u}: {q2!r}")
        except Exception as exc:  # noqa
            r.bad(key("_parse_value", "rejected"), f"_parse_value({s!r}) raised {type(exc).__name__}: {exc}")
    if "parse_value" in channels:
        # a plain number with the unit named separately (the `preferred` argument as a string)
        val = float(number) % 5.0 if dim == "angular" else float(number)
        for inp in (val, f"{val!r}"):
            try:
                q = _parse_value(inp, padded)
                if q is None or q.units != want or abs(q.unit_value - val) > 1e-12 * max(1.0, abs(val)):
                    r.bad(f"C18:parse:_parse_value:preferred-name:wrong-result:{unit_name}", f"_parse_value({inp!r}, {padded!r}) = {q!r}")
            except Exception as exc:  # noqa
                r.bad(key("_parse_value-preferred-name", "rejected"), f"_parse_value({inp!r}, {padded!r}) raised {type(exc).__name__}: {exc}")
    if "set" in channels:
        # the keyword form of basicConfig
        pb.PreferredUnits.defaults()
        other = next(u for u in ref.UNITS_BY_DIM[dim] if u != unit_name) if len(ref.UNITS_BY_DIM[dim]) > 1 else unit_name
        setattr(pb.PreferredUnits, slot, Unit[other])
        pb.basicConfig(preferred_units={slot: padded})
        got = getattr(pb.PreferredUnits, slot)
        if got != want or not isinstance(got, Unit):
            r.bad(key("basicConfig-keyword", "ignored"), f"basicConfig(preferred_units={{{slot!r}: {padded!r}}}) left the slot at {got!r}, expected Unit.{unit_name}")
        pb.PreferredUnits.defaults()
    if "toml" in channels and tmpdir is not None:
        pb.PreferredUnits.defaults()
        pb.reset_globals()
        other = next(u for u in ref.UNITS_BY_DIM[dim] if u != unit_name) if len(ref.UNITS_BY_DIM[dim]) > 1 else unit_name
        setattr(pb.PreferredUnits, slot, Unit[other])
        path = os.path.join(tmpdir, "pybc.toml")
        body = f'[pybc.preferred_units]\n{slot} = "{padded}"\n\n[pybc.calculator]\n'
        if dim == "distance":
            body += f'max_calc_step_size = {{ value = 2.0, units = "{padded}" }}\n'
        else:
            body += 'max_calc_step_size = { value = 0.5, units = "Foot" }\n'
        with open(path, "w", encoding="utf-8") as fh:
            fh.write(body)
        pb.basicConfig(path)
        got = getattr(pb.PreferredUnits, slot)
        if got != want or not isinstance(got, Unit):
            r.bad(key("config-file", "ignored"), f"pybc.toml with {slot} = {padded!r} left the slot at {got!r}, expected Unit.{unit_name}")
        if dim == "distance":
            gs = pb.get_global_max_calc_step_size() >> D.Foot
            exp = want(2.0) >> D.Foot
            if abs(gs - exp) > 1e-9 * exp:
                k = "C18:parse:config-step-units-exact-name-only" if padded != unit_name else f"C18:parse:config-step:{unit_name}"
                r.bad(k, f"pybc.toml max_calc_step_size = {{value = 2.0, units = {padded!r}}} gives a global step of {gs!r} ft, expected {exp!r}")
        pb.PreferredUnits.defaults()
        pb.reset_globals()


def _name_cases():
    for i, (name, unit, kind) in enumerate(NAMES):
        yield {"name": name, "unit": unit, "kind": kind}


def check_names(case):
    r = Res()
    tmpdir = tempfile.mkdtemp(prefix="pybc_c18_")
    try:
        for v in _variants(case["name"]):
            _check_name(r, v, case["unit"], ("parse_unit", "set", "parse_value", "toml"), tmpdir)
    finally:
        shutil.rmtree(tmpdir, ignore_errors=True)
        lib.reset_state()
    r.label(case["kind"])
    r.nontrivial = True
    return r


@st.composite
def _gen_name_case(draw):
    name, unit, kind = draw(st.sampled_from(NAMES))
    mask = draw(st.lists(st.booleans(), min_size=len(name), max_size=len(name)))
    chars = []
    for c, up in zip(name, mask):
        alt = c.upper() if up else c.lower()
        chars.append(alt if (len(alt) == 1 and alt.lower() == c.lower() and alt.upper() == c.upper()) else c)
    text = "".join(chars)
    if text.lower() != name.lower():
        text = name
    num = draw(st.one_of(st.integers(0, 9999).map(str), st.floats(0.0, 9999.0).map(lambda x: f"{x:.3f}"),
                         st.sampled_from(["1.", ".5", "0.25", "-3", "-0.5", "100"])))
    return {"name": text, "unit": unit, "kind": kind, "number": num,
            "pad": [" " * draw(st.integers(0, 3)), " " * draw(st.integers(0, 3))]}


def check_gen_name(case):
    r = Res()
    _check_name(r, case["name"], case["unit"], ("parse_unit", "set", "parse_value"), None, case["number"], tuple(case["pad"]))
    lib.reset_state()
    r.nontrivial = case["name"] != case["unit"]
    r.label(case["kind"])
    return r


@st.composite
def _unknown_case(draw):
    kind = draw(st.sampled_from(["text", "edit", "attr", "attr", "kwarg"]))
    if kind == "kwarg":
        # unknown *setting* names; restricted to attributes whose accidental overwrite can be undone safely
        return {"kind": kind, "text": draw(st.sampled_from(["set", "defaults", "foo", "Distance", "units", "__doc__", "unit", "angle"])),
                "slot": "distance"}
    if kind == "text":
        s = draw(st.text(alphabet="abcdefghijklmnopqrstuvwxyz/_-0123456789 .", min_size=1, max_size=10))
    elif kind == "edit":
        name = draw(st.sampled_from(NAMES))[0]
        i = draw(st.integers(0, len(name)))
        how = draw(st.sampled_from(["ins", "del", "sub"]))
        c = draw(st.sampled_from("abcdefghijklmnopqrstuvwxyz_/"))
        s = name[:i] + c + name[i:] if how == "ins" else (name[:i] + name[i + 1:]) if how == "del" else (name[:i] + c + name[i + 1:])
    else:
        # names that an attribute look-up on the settings class, the Unit enumeration (an int subclass), the unit module
        # or the builtins would find although they name no unit
        attrs = sorted({a for a in dir(pb.PreferredUnits) if a not in SLOTS} | set(dir(Unit)) | set(dir(int)) | set(dir(str))
                       | set(dir(pb.unit)) | set(dir(__import__("builtins"))) | set(dir(pb.UnitAliases) if hasattr(pb, "UnitAliases") else []))
        s = draw(st.sampled_from(attrs + ["set", "defaults", "__doc__", "__init__", "__class__", "__dict__", "__module__"]))
        s = draw(st.sampled_from([s, s.upper(), " " + s + " "]))
    return {"kind": kind, "text": s, "slot": draw(st.sampled_from(SLOTS))}


def check_unknown(case):
    r = Res()
    s = case["text"]
    r.label(case["kind"])
    low = s.strip().lower()
    if not low or low in KNOWN_LOWER or low in SLOTS or low.replace(" ", "") in KNOWN_LOWER:
        r.label("is-known")
        return r
    r.nontrivial = True
    attr_key = "C18:parse:non-slot-attribute"
    if case["kind"] == "kwarg":
        # unknown *setting* names
        before = {a: getattr(pb.PreferredUnits, a, None) for a in dir(pb.PreferredUnits)}
        snap = _slots_snapshot()
        try:
            pb.PreferredUnits.set(**{s.strip(): Unit.Inch})
        except Exception:  # noqa
            pass
        changed = [a for a in before if getattr(pb.PreferredUnits, a, None) is not before[a] and getattr(pb.PreferredUnits, a, None) != before[a]]
        if changed or _slots_snapshot() != snap:
            r.bad("C18:parse:set-overwrites-non-slot-attribute", f"PreferredUnits.set({s.strip()}=Unit.Inch) changed {changed or 'a slot'}")
            for a in changed:
                try:
                    setattr(pb.PreferredUnits, a, before[a])
                except Exception:  # noqa
                    pass
        return r
    try:
        got = _parse_unit(s)
    except Exception:  # noqa
        got = None
    if got is not None:
        r.bad(attr_key if case["kind"] == "attr" else "C18:parse:unknown-name-resolves", f"_parse_unit({s!r}) = {got!r} (not a unit name or alias)")
    snap = _slots_snapshot()
    try:
        pb.PreferredUnits.set(**{case["slot"]: s})
    except Exception:  # noqa
        pass
    now = _slots_snapshot()
    if now != snap or any(not isinstance(v, Unit) for v in now.values()):
        r.bad(attr_key if case["kind"] == "attr" else "C18:parse:unknown-name-changes-slot",
              f"PreferredUnits.set({case['slot']}={s!r}) changed the slot to {now[case['slot']]!r}")
    pb.PreferredUnits.defaults()
    # ... through a configuration file (preferred unit and step unit) and the keyword form of basicConfig
    if all(ch.isprintable() and ch not in '"\\' for ch in s):
        tmpdir = tempfile.mkdtemp(prefix="pybc_c18u_")
        try:
            pb.reset_globals()
            snap = _slots_snapshot()
            step0 = pb.get_global_max_calc_step_size().raw_value
            path = os.path.join(tmpdir, "pybc.toml")
            with open(path, "w", encoding="utf-8") as fh:
                fh.write(f'[pybc.preferred_units]\n{case["slot"]} = "{s}"\n\n[pybc.calculator]\nmax_calc_step_size = {{ value = 2.0, units = "{s}" }}\n')
            for how in ("file", "keyword"):
                try:
                    if how == "file":
                        pb.basicConfig(path, suppress_warnings=True)
                    else:
                        pb.basicConfig(preferred_units={case["slot"]: s}, suppress_warnings=True)
                except Exception:  # noqa
                    pass
                now = _slots_snapshot()
                if now != snap or any(not isinstance(v, Unit) for v in now.values()):
                    r.bad(attr_key if case["kind"] == "attr" else "C18:parse:unknown-name-changes-slot",
                          f"basicConfig ({how}) with {case['slot']} = {s!r} changed the slot to {now[case['slot']]!r}")
                if pb.get_global_max_calc_step_size().raw_value != step0:
                    r.bad(attr_key if case["kind"] == "attr" else "C18:parse:unknown-name-sets-step",
                          f"pybc.toml with max_calc_step_size units = {s!r} changed the global step to {pb.get_global_max_calc_step_size()!r}")
        finally:
            shutil.rmtree(tmpdir, ignore_errors=True)
            pb.PreferredUnits.defaults()
            pb.reset_globals()
    for inp in (2.5, "2.5"):
        try:
            q = _parse_value(inp, s)
        except Exception:  # noqa
            q = None
        if q is not None:
            r.bad(attr_key if case["kind"] == "attr" else "C18:parse:unknown-name-value", f"_parse_value({inp!r}, {s!r}) = {q!r} although {s!r} names no unit")
    try:
        q = _parse_value("2.5" + s, None)
    except Exception:  # noqa
        q = None
    if q is not None and not isinstance(q, pb.AbstractDimension):
        r.bad(attr_key if case["kind"] == "attr" else "C18:parse:unknown-name-value", f"_parse_value({'2.5' + s!r}) = {q!r}")
    elif q is not None and s.strip()[:1] not in "0123456789.":
        r.bad(attr_key if case["kind"] == "attr" else "C18:parse:unknown-name-value", f"_parse_value({'2.5' + s!r}) = {q!r} although {s!r} names no unit")
    return r


# ===================================================================================================== coverage-guided fuzzing
def fuzz_run(pid, part, n, seed_value, stats, known, found):
    """one libFuzzer campaign (atheris) on the unit-string parsers with the parsing oracle inside the target"""
    import json
    import subprocess
    import sys
    from .. import fuzz_parse
    from ..core import case_hash
    root = os.path.dirname(os.path.dirname(os.path.dirname(os.path.abspath(__file__))))
    deps = os.path.join(root, ".deps")
    env = dict(os.environ, PYTHONPATH=os.pathsep.join([deps, root, os.environ.get("PYTHONPATH", "")]))
    probe = subprocess.run([sys.executable, "-c", "import atheris"], env=env, capture_output=True)
    if probe.returncode != 0:
        stats.labels[f"{part.name}:atheris-unavailable"] += 1
        return
    work = tempfile.mkdtemp(prefix="pybc_fuzz_")
    try:
        art = os.path.join(work, "art")
        corpus = os.path.join(work, "corpus")
        os.makedirs(art)
        os.makedirs(corpus)
        statf = os.path.join(work, "stats.json")
        cmd = [sys.executable, "-W", "ignore", "-m", "vf.fuzz_parse", statf, art, f"-runs={n}", f"-seed={seed_value % 2 ** 31 or 1}",
               "-max_len=40", "-print_final_stats=0", corpus]
        pr = subprocess.run(cmd, cwd=root, env=env, capture_output=True, text=True, timeout=3600)
        st = json.load(open(statf)) if os.path.exists(statf) else {"execs": 0}
        execs = int(st.get("execs", 0))
        stats.evaluations += execs
        stats.per_part[part.name] += execs
        for ch, c in (st.get("channels") or {}).items():
            stats.labels[f"{part.name}:channel:{ch}"] += c
        stats.labels[f"{part.name}:known-name"] += int(st.get("known", 0))
        stats.labels[f"{part.name}:unknown-name"] += int(st.get("unknown", 0))
        for i, smp in enumerate(st.get("samples") or []):
            h = case_hash(smp)
            if h not in stats.nontrivial:
                stats.nontrivial.add(h)
                if i in (1, 5):
                    stats.samples.append({"part": part.name, "case": smp, "labels": ["decoded-fuzz-input"]})
        # distinct decoded inputs are counted by the target; hashes of all of them are not shipped back
        for i in range(int(st.get("distinct", 0))):
            stats.nontrivial.add(f"fuzz-{seed_value % 9973}-{i}")
        for fn in sorted(os.listdir(art)):
            data = open(os.path.join(art, fn), "rb").read()
            case = {"bytes_hex": data.hex()}
            res = check_fuzz(case)
            for v in res.violations:
                if v.key in known:
                    stats.excluded[v.key] += 1
                else:
                    found.append({"part": part.name, "case": case, **v.as_dict()})
            if not res.violations and pr.returncode != 0:
                found.append({"part": part.name, "case": case, "key": "C18:fuzz:target-crashed", "message": (pr.stderr or "")[-600:], "details": {}})
    finally:
        shutil.rmtree(work, ignore_errors=True)


def check_fuzz(case):
    """replay of a saved fuzz input (no atheris needed)"""
    from .. import fuzz_parse
    r = Res()
    decoded = fuzz_parse.decode(bytes.fromhex(case["bytes_hex"]))
    for key, msg in fuzz_parse.oracle(decoded):
        r.bad(key, msg, decoded=decoded)
    lib.reset_state()
    r.nontrivial = True
    return r


def parts(tier):
    return [
        Part("settings", strategy=_settings_case(), check=check_settings, n={"quick": 1200, "thorough": 24000}),
        Part("step-in-strong-wind", strategy=_lob_case(), check=check_lob, n={"quick": 480, "thorough": 10000}),
        Part("locality", kind="machine", interp=Locality, rules=LOC_RULES, n={"quick": 800, "thorough": 16000},
             steps={"quick": 14, "thorough": 30}),
        Part("names-exhaustive", kind="enum", cases=_name_cases, check=check_names, exhaustive=True),
        Part("names-generated", strategy=_gen_name_case(), check=check_gen_name, n={"quick": 6000, "thorough": 200000}),
        Part("unknown-names", strategy=_unknown_case(), check=check_unknown, n={"quick": 4000, "thorough": 100000}),
        Part("parse-fuzz", kind="custom", run=fuzz_run, check=check_fuzz, n={"quick": 120000, "thorough": 6400000}, max_shards=16),
    ]


MANIFEST = {
    "technique": "Hypothesis-generated solver configurations observed through their effects; rule-based state machine for global/local step; exhaustive enumeration of unit names and aliases x case variants x parse channels; generated case masks, prefixes and unknown names; coverage-guided fuzzing (atheris/libFuzzer) of the string parsers with the oracle inside the target",
    "text": "Each of the solver settings is observed to govern its calculator (step trace, limits vs lax-limit trace, gravity vs closed form, iteration cap by counting integrations, defaults); histories of global-step set/reset and calculator creation "
            "keep every calculator at its creation-time step, non-positive values rejected; every enumeration name and alias resolves to its unit in every letter case through _parse_unit, PreferredUnits.set, _parse_value and a written pybc.toml; unknown names change nothing. "
            "Exploration level; the name/alias table is exhaustive.",
    "note": "observes the step through the first trace time stamp; writes scratch pybc.toml files under the system temp dir during the run only",
}
