"""C17 - Powder temperature sensitivity is linear, anchored and reproduces calibration."""
import math
from hypothesis import strategies as st

from .. import lib, ref
from ..core import Part, Res

pb = lib.pb
Unit = pb.Unit

ID = "C17"
RULE = ("ammunition generated with baseline velocity 100..1500 m/s and powder temperature -40..50 C in any velocity / "
        "temperature unit; sensitivity off, given as a modifier (-0.3..0.3 per 15 C), or calibrated from a second "
        "measurement with either sign of dv (1..200 m/s) and dT (1..60 C); 6 query temperatures -60..70 C in any unit; "
        "a separate part fires short shots with and without Atmo(powder_t=...); non-trivial = sensitivity enabled and "
        "a query temperature different from the baseline (law part) or enabled sensitivity with powder temperature "
        "different from the baseline (fire part, optionally after the same calculator fired the same ammunition in other air); "
        "distinct = distinct case dicts")
ASSUMPTIONS = ["velocities/temperatures are compared in m/s and Celsius as read through the library's own unit "
               "conversion (whose correctness is C06)", "relative tolerance 1e-9"]

VEL = ref.UNITS_BY_DIM["velocity"]
TEMP = ref.UNITS_BY_DIM["temperature"]
REL = 1e-9


def _vel(draw, mps):
    u = draw(st.sampled_from(VEL))
    return [ref.from_si(mps, u), u]


def _temp(draw, c, allow_zero=False):
    u = draw(st.sampled_from(TEMP))
    if allow_zero and u in ("Fahrenheit", "Celsius") and draw(st.integers(0, 7)) == 0:
        return [0.0, u]           # exactly zero on the scale (a zero quantity is still a given value)
    return [ref.from_si(c + 273.15, u), u]


@st.composite
def _case(draw, fire=False):
    v0 = draw(st.floats(100.0, 1500.0))
    t0 = draw(st.one_of(st.floats(-40.0, 50.0), st.sampled_from([15.0, 0.0, 20.0])))
    mode = draw(st.sampled_from(["off", "modifier", "calibrated", "calibrated", "calibrated-off"]))
    case = {"v0": _vel(draw, v0), "t0": _temp(draw, t0) if draw(st.integers(0, 5)) else None, "mode": mode}
    if case["t0"] is None:
        t0 = 15.0
    if mode in ("modifier", "off"):
        case["m"] = draw(st.one_of(st.floats(-0.3, 0.3), st.sampled_from([0.0, 0.0123, 0.123, 1.0])))
    if mode.startswith("calibrated"):
        dv = draw(st.floats(1.0, 200.0)) * draw(st.sampled_from([1, -1]))
        if v0 + dv < 20:
            dv = abs(dv)
        dt = draw(st.floats(1.0, 60.0)) * draw(st.sampled_from([1, -1]))
        case["v1"] = _vel(draw, v0 + dv)
        case["t1"] = _temp(draw, t0 + dt)
        case["signs"] = ("faster" if dv > 0 else "slower") + "-" + ("warmer" if dt > 0 else "colder")
    case["queries"] = [_temp(draw, draw(st.one_of(st.floats(-60.0, 70.0), st.just(t0))), allow_zero=True) for _ in range(6)]
    if fire:
        case["air_c"] = draw(st.floats(-40.0, 50.0))
        case["powder_t"] = _temp(draw, draw(st.floats(-50.0, 60.0)), allow_zero=True) if draw(st.booleans()) else None
        case["alt_ft"] = draw(st.floats(0.0, 5000.0))
        # how the atmosphere is given: all values explicit; altitude only (standard conditions there, the air - and so the
        # powder - is colder than at sea level); the ICAO constructor; no atmosphere at all (standard sea level)
        case["atmo_form"] = draw(st.sampled_from(["explicit", "explicit", "altitude-only", "icao", "none"]))
        case["prior_air_c"] = draw(st.one_of(st.none(), st.floats(-40.0, 50.0)))
    return case


def _q(pair):
    return Unit[pair[1]](pair[0])


def _ammo(case):
    dm = pb.DragModel(0.3, pb.TableG7)
    mode = case["mode"]
    kw = {}
    if case["t0"] is not None:
        kw["powder_temp"] = _q(case["t0"])
    if mode == "off":
        return pb.Ammo(dm, _q(case["v0"]), temp_modifier=case["m"], use_powder_sensitivity=False, **kw)
    if mode == "modifier":
        return pb.Ammo(dm, _q(case["v0"]), temp_modifier=case["m"], use_powder_sensitivity=True, **kw)
    ammo = pb.Ammo(dm, _q(case["v0"]), use_powder_sensitivity=(mode == "calibrated"), **kw)
    return ammo


def _expected(ammo, v0, t0c, m, tq_c):
    return v0 + m * v0 * (tq_c - t0c) / 15.0


def _law(r, case, ammo):
    """checks on get_velocity_for_temp; returns callable expected(T_c) -> m/s"""
    mode = case["mode"]
    v0 = ammo.mv >> pb.Velocity.MPS
    t0c = ammo.powder_temp >> pb.Temperature.Celsius
    raw_before = (ammo.mv.raw_value, ammo.powder_temp.raw_value)
    if mode.startswith("calibrated"):
        v1q, t1q = _q(case["v1"]), _q(case["t1"])
        ret = ammo.calc_powder_sens(v1q, t1q)
        if ret != ammo.temp_modifier:
            r.bad("C17:calc_powder_sens:return", f"returned {ret!r} but stored modifier {ammo.temp_modifier!r}")
        r.label("calib:" + case["signs"])
    m = ammo.temp_modifier
    enabled = ammo.use_powder_sensitivity
    # the law is anchored on what was *given*: stated velocity, stated powder temperature (15 C when not given) and, when
    # the modifier itself was given, that modifier - not on what the object reports back
    v0_in = ref.to_si(case["v0"][0], case["v0"][1])
    t0_in = ref.to_si(case["t0"][0], case["t0"][1]) - 273.15 if case["t0"] is not None else 15.0
    if abs(v0 - v0_in) > 1e-6 * v0_in or abs(t0c - t0_in) > 1e-6 * (abs(t0_in) + 273.15):   # (6-digit unit constants)
        r.bad("C17:stated-values-misread", f"given {v0_in!r} m/s @ {t0_in!r} C, the ammunition reports {v0!r} m/s @ {t0c!r} C")
    if mode == "modifier":
        m = case["m"]
    if mode == "calibrated":
        v1 = v1q >> pb.Velocity.MPS
        got = ammo.get_velocity_for_temp(t1q) >> pb.Velocity.MPS
        if not abs(got - v1) <= REL * max(abs(v1), 1.0):
            # mechanism predicate of the recorded defect: modifier computed as |dv|/|dT| * 15 / min(v0, v1)
            t1c = t1q >> pb.Temperature.Celsius
            m_def = abs(v0 - v1) / abs(t0c - t1c) * 15.0 / min(v0, v1)
            key = "C17:calibration-not-reproduced"
            if abs(m - m_def) <= 1e-9 * abs(m_def):
                key += ":v_lower-and-abs"
            r.bad(key, f"baseline {v0!r} m/s @ {t0c!r} C calibrated with {v1!r} m/s @ {t1c!r} C reproduces {got!r} m/s "
                  f"at the second temperature ({case['signs']})", modifier=m)
    for tq in case["queries"]:
        tqq = _q(tq)
        tqc = tqq >> pb.Temperature.Celsius
        got_q = ammo.get_velocity_for_temp(tqq)
        got = got_q >> pb.Velocity.MPS
        if not enabled:
            if got_q.raw_value != ammo.mv.raw_value:
                r.bad("C17:disabled-changes-velocity", f"sensitivity disabled but v({tqc!r} C) = {got!r} != stated {v0!r}")
            continue
        exp = _expected(ammo, v0, t0c, m, tqc)
        tol = REL * max(abs(v0), abs(exp), 1.0)
        if tqc == t0c:
            if not abs(got - v0) <= 1e-12 * max(abs(v0), 1.0):
                r.bad("C17:not-anchored", f"v(T0={t0c!r} C) = {got!r} != stated velocity {v0!r}")
        if not abs(got - exp) <= tol:
            r.bad("C17:not-linear", f"v({tqc!r} C) = {got!r}, linear law (m={m!r} per 15 C from {v0!r} @ {t0c!r} C) gives {exp!r}")
    if (ammo.mv.raw_value, ammo.powder_temp.raw_value) != raw_before:
        r.bad("C17:baseline-mutated", "calibration / queries changed the stated velocity or powder temperature")
    return v0, t0c, m, enabled


def check_law(case):
    r = Res()
    ammo = _ammo(case)
    r.label("mode:" + case["mode"])
    v0, t0c, m, enabled = _law(r, case, ammo)
    r.nontrivial = enabled and any(abs((_q(t) >> pb.Temperature.Celsius) - t0c) > 0.5 for t in case["queries"]) and m != 0
    return r


def check_fire(case):
    r = Res()
    ammo = _ammo(case)
    r.label("mode:" + case["mode"])
    v0, t0c, m, enabled = _law(r, case, ammo)
    kw = {}
    if case["powder_t"] is not None:
        kw["powder_t"] = _q(case["powder_t"])
        r.label("powder_t-given")
    form = case.get("atmo_form", "explicit")
    r.label("atmosphere:" + form)
    air_c = case["air_c"]
    slack_c = 0.0
    if form == "explicit":
        atmo = pb.Atmo(altitude=pb.Distance.Foot(case["alt_ft"]), pressure=pb.Pressure.hPa(1000.0),
                       temperature=pb.Temperature.Celsius(case["air_c"]), humidity=0.0, **kw)
    else:
        # standard air temperature at the altitude: 15 C less 6.5 K/km (C08's subject; 2e-3 C for rounded lapse constants)
        alt = 0.0 if form == "none" else case["alt_ft"]
        air_c = 15.0 - 0.0065 * alt * 0.3048
        slack_c = 2e-3
        if form == "altitude-only":
            atmo = pb.Atmo(altitude=pb.Distance.Foot(alt), **kw)
        elif form == "icao":
            atmo = pb.Atmo.icao(pb.Distance.Foot(alt))
            kw = {}
        else:
            atmo = None
            kw = {}
    shot = pb.Shot(pb.Weapon(pb.Distance.Inch(2)), ammo, atmo=atmo) if atmo is not None else pb.Shot(pb.Weapon(pb.Distance.Inch(2)), ammo)
    given_pt = case["powder_t"] is not None and bool(kw)
    pt_c = (_q(case["powder_t"]) >> pb.Temperature.Celsius) if given_pt else air_c
    if given_pt:
        slack_c = 0.0
    exp = _expected(ammo, v0, t0c, m, pt_c) if enabled else v0
    if exp < 60.0:
        # the linear law may extrapolate to speeds below the solver's minimum-velocity limit: nothing to fire
        r.label("fire-skipped-too-slow")
        return r
    calc = pb.Calculator()
    if case.get("prior_air_c") is not None:
        # history: the same calculator has just fired the same ammunition in air of another temperature
        try:
            calc.fire(pb.Shot(pb.Weapon(pb.Distance.Inch(2)), ammo, atmo=pb.Atmo(temperature=pb.Temperature.Celsius(case["prior_air_c"]))),
                      pb.Distance.Foot(30.0), pb.Distance.Foot(10.0))
        except pb.RangeError:
            pass
        r.label("calculator-fired-same-ammo-in-other-air")
    hit = calc.fire(shot, pb.Distance.Foot(30.0), pb.Distance.Foot(10.0))
    got = hit.trajectory[0].velocity >> pb.Velocity.MPS
    if not abs(got - exp) <= REL * max(abs(exp), 1.0) + (abs(m * v0) * slack_c / 15.0 if enabled else 0.0):
        which = "given powder temperature" if given_pt else "air temperature"
        r.bad("C17:launch-velocity:" + ("powder_t" if given_pt else "air"),
              f"first row speed {got!r} m/s, expected {exp!r} m/s for the {which} {pt_c!r} C "
              f"(baseline {v0!r} @ {t0c!r} C, modifier {m!r}, enabled={enabled})")
    r.nontrivial = enabled and m != 0 and abs(pt_c - t0c) > 0.5
    return r


# ---- histories on one live Ammo: calibration, direct assignment of the public fields, queries ----------------------
@st.composite
def _hist(draw):
    ops = []
    for _ in range(draw(st.integers(2, 7))):
        k = draw(st.sampled_from(["calibrate", "set_modifier", "set_mv", "set_powder_temp", "toggle", "query"]))
        if k == "calibrate":
            ops.append([k, draw(st.floats(-150.0, 150.0)), draw(st.floats(-50.0, 50.0))])
        elif k == "set_modifier":
            ops.append([k, draw(st.one_of(st.floats(-0.3, 0.3), st.sampled_from([0.0, 0.02, 1.5])))])
        elif k == "set_mv":
            ops.append([k, draw(st.floats(200.0, 1400.0))])
        elif k == "set_powder_temp":
            ops.append([k, draw(st.floats(-40.0, 50.0))])
        elif k == "query":
            ops.append([k, draw(st.floats(-60.0, 70.0))])
        else:
            ops.append([k])
    return {"v0": draw(st.floats(200.0, 1400.0)), "t0": draw(st.floats(-40.0, 50.0)),
            "m": draw(st.floats(-0.1, 0.1)), "on": draw(st.booleans()), "ops": ops,
            "probes": [draw(st.floats(-60.0, 70.0)) for _ in range(3)]}


def check_history(case):
    r = Res()
    ammo = pb.Ammo(pb.DragModel(0.3, pb.TableG7), pb.Velocity.MPS(case["v0"]), pb.Temperature.Celsius(case["t0"]),
                   case["m"], case["on"])
    calibrated = False
    nt = False
    for op in case["ops"]:
        k = op[0]
        if k == "calibrate":
            v0 = ammo.mv >> pb.Velocity.MPS
            t0c = ammo.powder_temp >> pb.Temperature.Celsius
            v1, t1 = v0 + op[1], t0c + op[2]
            if abs(op[1]) < 1.0 or abs(op[2]) < 1.0 or v1 < 50.0:
                continue
            ammo.calc_powder_sens(pb.Velocity.MPS(v1), pb.Temperature.Celsius(t1))
            calibrated = True
            if ammo.use_powder_sensitivity:
                got = ammo.get_velocity_for_temp(pb.Temperature.Celsius(t1)) >> pb.Velocity.MPS
                if not abs(got - v1) <= REL * max(abs(v1), 1.0):
                    r.bad("C17:history:calibration-not-reproduced", f"after {op}: v(T1) = {got!r}, second measurement {v1!r}")
        elif k == "set_modifier":
            ammo.temp_modifier = op[1]
            nt = nt or calibrated
        elif k == "set_mv":
            ammo.mv = pb.Velocity.MPS(op[1])
            nt = nt or calibrated
        elif k == "set_powder_temp":
            ammo.powder_temp = pb.Temperature.Celsius(op[1])
            nt = nt or calibrated
        elif k == "toggle":
            ammo.use_powder_sensitivity = not ammo.use_powder_sensitivity
        # the law must follow the ammunition's *current* stated velocity, powder temperature and modifier
        v0 = ammo.mv >> pb.Velocity.MPS
        t0c = ammo.powder_temp >> pb.Temperature.Celsius
        m = ammo.temp_modifier
        for tq in case["probes"] + ([op[1]] if k == "query" else []) + [t0c]:
            got = ammo.get_velocity_for_temp(pb.Temperature.Celsius(tq)) >> pb.Velocity.MPS
            tqc = pb.Temperature.Celsius(tq) >> pb.Temperature.Celsius
            exp = _expected(ammo, v0, t0c, m, tqc) if ammo.use_powder_sensitivity else v0
            if not abs(got - exp) <= REL * max(abs(v0), abs(exp), 1.0):
                r.bad("C17:history:law-does-not-follow-current-fields",
                      f"after {op}: v({tqc!r} C) = {got!r}, the stated fields (v0 {v0!r} @ {t0c!r} C, modifier {m!r}, "
                      f"enabled={ammo.use_powder_sensitivity}) give {exp!r}", op=op)
                break
        if r.violations:
            break
    r.nontrivial = nt
    return r


def parts(tier):
    return [
        Part("law", strategy=_case(), check=check_law, n={"quick": 20000, "thorough": 2000000}),
        Part("fire", strategy=_case(fire=True), check=check_fire, n={"quick": 640, "thorough": 12000}),
        Part("history", strategy=_hist(), check=check_history, n={"quick": 6000, "thorough": 120000}),
    ]


MANIFEST = {
    "technique": "Hypothesis-generated ammunition / measurement pairs against the linear law and the calibration round trip; launch velocity observed on the first row of fire()",
    "text": "off => stated velocity at every temperature; on => v(T0)=v0 and v(T)-v0 = m v0 (T-T0)/15 (1e-9 rel); calc_powder_sens(v1,T1) then v(T1)=v1 for all four "
            "sign combinations; first row of fire() has v(powder_t or air temperature). All velocity and temperature units. Exploration level over generated inputs.",
    "note": "reads values through the library's own unit conversions (C06); tolerance 1e-9 relative",
}
