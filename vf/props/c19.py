"""C19 - Sight click counts are the angular correction divided by the click value."""
import math
from hypothesis import strategies as st

from .. import lib, ref
from ..core import Part, Res

pb = lib.pb
Unit = pb.Unit

ID = "C19"
RULE = ("sights generated over FFP/SFP/LWIR with independent h and v click sizes (1e-3..20 mrad, any of the 9 angular "
        "units), calibration/target distances in any of the 10 distance units, magnification 0.5..60, corrections "
        "+-(0..300 mrad) in any angular unit or via a synthetic trajectory row; invalid constructions generated "
        "separately; non-trivial = valid sight with h click != v click, non-zero corrections and (for SFP/LWIR) "
        "magnification != 1; distinct = distinct case dicts")
ASSUMPTIONS = ["PreferredUnits at library defaults (adjustment = Mil) - dependence on that setting is C07's subject",
               "relative tolerance 1e-8 on click counts"]

ANG = ref.UNITS_BY_DIM["angular"]
DIST = ref.UNITS_BY_DIM["distance"]
REL = 1e-8


@st.composite
def _valid(draw):
    fp = draw(st.sampled_from(["FFP", "SFP", "LWIR"]))

    def click():
        mrad = 10 ** draw(st.floats(-3, math.log10(20.0)))
        u = draw(st.sampled_from(ANG))
        return [ref.from_si(mrad * 1e-3, u), u]

    h = click()
    v = h if draw(st.integers(0, 9)) == 0 else click()
    mag = draw(st.one_of(st.floats(0.5, 60.0), st.sampled_from([1.0, 2.0, 10.0])))
    big = max(ref.to_si(h[0], h[1]), ref.to_si(v[0], v[1]))
    # keep the scaled step below ~0.5 rad (the angular type wraps values above one turn)
    hi = min(300.0, 0.5 / (big * mag))
    lo = 1 / 300.0
    ratio = math.exp(draw(st.floats(math.log(lo), math.log(max(hi, lo * 1.0001)))))
    calib_m = 10 ** draw(st.floats(1.0, math.log10(3000.0)))
    target_m = calib_m / ratio
    cu, tu = draw(st.sampled_from(DIST)), draw(st.sampled_from(DIST))

    def corr():
        mrad = draw(st.one_of(st.floats(-300.0, 300.0), st.sampled_from([0.0, 1.0, -1.0])))
        u = draw(st.sampled_from(ANG))
        return [ref.from_si(mrad * 1e-3, u), u]

    return {"fp": fp, "h": h, "v": v, "mag": mag,
            "calib": [ref.from_si(calib_m, cu), cu] if (fp == "SFP" or draw(st.booleans())) else None,
            "target": [ref.from_si(target_m, tu), tu],
            "drop": corr(), "wind": corr(), "via_row": draw(st.booleans()),
            "bare_target": draw(st.booleans()),
            # history between construction and query: re-display the caller's quantities / switch the preferred distance unit
            "redisplay": draw(st.one_of(st.none(), st.sampled_from(DIST))),
            "pref_distance_after": draw(st.one_of(st.none(), st.none(), st.sampled_from(DIST))),
            "row_look_deg": draw(st.one_of(st.just(0.0), st.floats(-45.0, 45.0))),
            # history: a public field of the sight is reassigned between two queries with the same distance and magnification
            "reassign": draw(st.one_of(st.none(), st.none(), st.sampled_from(["v", "h", "scale"]))),
            "reassign_factor": draw(st.sampled_from([0.5, 2.0, 0.4, 1.25]))}


def _q(pair):
    return Unit[pair[1]](pair[0])


def _row(dist_q, drop_q, wind_q, look_deg=0.0):
    TD = pb.TrajectoryData
    z = pb.Distance.Foot(0)
    # a row of a shot along an inclined sight line: look_distance = distance / cos(look angle)
    look_q = pb.Distance.Foot((dist_q >> pb.Distance.Foot) / math.cos(math.radians(look_deg)))
    return TD(time=0.1, distance=dist_q, velocity=pb.Velocity.FPS(1000), mach=1.0, height=z, target_drop=z,
              drop_adj=drop_q, windage=z, windage_adj=wind_q, look_distance=look_q, angle=pb.Angular.Radian(0),
              density_factor=0.0, drag=0.0, energy=pb.Energy.FootPound(0), ogw=pb.Weight.Pound(0), flag=8)


def _effective(case, which):
    """admissible effective click sizes in radians (a set: SFP scaling may be done in radians or in the given unit)"""
    val, u = case[which]
    nominal = ref.to_si(val, u)
    fp, mag = case["fp"], case["mag"]
    if fp == "FFP":
        return [nominal]
    if fp == "LWIR":
        return [nominal / mag]
    ratio = ref.to_si(*case["calib"]) / ref.to_si(*case["target"])
    k = ratio * mag
    return [nominal * k, ref.to_si(val * k, u)]


def check_valid(case):
    r = Res()
    fp = case["fp"]
    r.label(fp)
    calib_q = _q(case["calib"]) if case["calib"] else None
    hq, vq = _q(case["h"]), _q(case["v"])
    sight = pb.Sight(fp, calib_q, hq, vq)
    if case.get("redisplay") and calib_q is not None:
        # the caller keeps using its own quantity objects: showing them in another unit changes no magnitude (C13)
        calib_q << Unit[case["redisplay"]]
        r.label("calibration-redisplayed")
    if case.get("pref_distance_after"):
        pb.PreferredUnits.distance = Unit[case["pref_distance_after"]]
        r.label("preferred-distance-switched")
    drop, wind = _q(case["drop"]), _q(case["wind"])
    if case["bare_target"] and not case["via_row"]:
        # a bare number is read in the preferred distance unit in force at the call (yard at defaults)
        target = ref.convert(case["target"][0], case["target"][1], case.get("pref_distance_after") or "Yard")
        r.label("bare-target-distance")
        # conversion through yards must not change the target distance noticeably
    else:
        target = _q(case["target"])
    if case["via_row"]:
        got = sight.get_trajectory_adjustment(_row(_q(case["target"]), drop, wind, case.get("row_look_deg", 0.0)), case["mag"])
        r.label("via-row", "row-look!=0" if case.get("row_look_deg") else "row-look=0")
    else:
        got = sight.get_adjustment(target, drop, wind, case["mag"])
    d_rad, w_rad = ref.to_si(*case["drop"]), ref.to_si(*case["wind"])
    ev, eh = _effective(case, "v"), _effective(case, "h")

    def ok(clicks, corr, effs):
        return any(abs(clicks * e - corr) <= REL * max(abs(corr), 1e-12) for e in effs)

    v_ok, h_ok = ok(got.vertical, d_rad, ev), ok(got.horizontal, w_rad, eh)
    if not (v_ok and h_ok):
        # mechanism predicate: does it fit with the two click sizes exchanged?
        if ok(got.vertical, d_rad, eh) and ok(got.horizontal, w_rad, ev) and case["h"] != case["v"]:
            r.bad(f"C19:{fp.lower()}:h-v-swapped", f"{fp}: vertical clicks use the horizontal click size and vice versa "
                  f"(vertical {got.vertical!r}, horizontal {got.horizontal!r})", got=list(got))
        else:
            if not v_ok:
                r.bad(f"C19:clicks:{fp}:vertical", f"{fp}: vertical clicks {got.vertical!r} x effective click "
                      f"{ev[0]!r} rad != correction {d_rad!r} rad", got=list(got))
            if not h_ok:
                r.bad(f"C19:clicks:{fp}:horizontal", f"{fp}: horizontal clicks {got.horizontal!r} x effective click "
                      f"{eh[0]!r} rad != correction {w_rad!r} rad", got=list(got))
    # history on the same sight object: after a public field has been reassigned the law follows the current fields
    if case.get("reassign") and not r.violations and (case["calib"] or case["reassign"] != "scale"):
        f = case["reassign_factor"]
        case2 = dict(case)
        if case["reassign"] == "v":
            case2["v"] = [case["v"][0] * f, case["v"][1]]
            sight.v_click_size = _q(case2["v"])
        elif case["reassign"] == "h":
            case2["h"] = [case["h"][0] * f, case["h"][1]]
            sight.h_click_size = _q(case2["h"])
        else:
            case2["calib"] = [case["calib"][0] * f, case["calib"][1]]
            sight.scale_factor = _q(case2["calib"])
        got_b = sight.get_adjustment(_q(case["target"]), _q(case["drop"]), _q(case["wind"]), case["mag"])
        ev2, eh2 = _effective(case2, "v"), _effective(case2, "h")
        if not (ok(got_b.vertical, d_rad, ev2) and ok(got_b.horizontal, w_rad, eh2)):
            r.bad(f"C19:history:stale-after-field-reassignment:{fp}", f"{fp}: after reassigning {case['reassign']} (x{f}) the same query gives "
                  f"({got_b.vertical!r}, {got_b.horizontal!r}); the current fields give effective clicks {ev2[0]!r} / {eh2[0]!r} rad for corrections {d_rad!r} / {w_rad!r}")
        r.label("field-reassigned")
    # sign and linearity: doubling the correction doubles the clicks (kept inside one turn: <= 0.6 rad)
    drop2 = pb.Angular.Radian(2 * d_rad)
    wind2 = pb.Angular.Radian(2 * w_rad)
    sight2 = pb.Sight(fp, _q(case["calib"]) if case["calib"] else None, _q(case["h"]), _q(case["v"]))
    got2 = sight2.get_adjustment(_q(case["target"]), drop2, wind2, case["mag"])
    got1 = sight2.get_adjustment(_q(case["target"]), pb.Angular.Radian(d_rad), pb.Angular.Radian(w_rad), case["mag"])
    for name, a, b, c in (("vertical", got1.vertical, got2.vertical, d_rad),
                          ("horizontal", got1.horizontal, got2.horizontal, w_rad)):
        if abs(b - 2 * a) > 1e-9 * max(abs(b), 1e-12):
            r.bad(f"C19:linear:{fp}:{name}", f"{fp}: doubling the correction changes {name} clicks {a!r} -> {b!r}")
        if c != 0 and (a > 0) != (c > 0):
            r.bad(f"C19:sign:{fp}:{name}", f"{fp}: {name} clicks {a!r} have not the sign of the correction {c!r}")
    r.nontrivial = (case["h"] != case["v"] and d_rad != 0 and w_rad != 0 and (fp == "FFP" or case["mag"] != 1.0))
    if case["h"] != case["v"]:
        r.label("h!=v")
    return r


@st.composite
def _invalid(draw):
    kind = draw(st.sampled_from(["focal", "sfp-nocal", "h<=0", "v<=0", "none-click"]))
    good = [0.1, "Mil"]
    case = {"kind": kind, "fp": "FFP", "calib": [100.0, "Meter"], "h": list(good), "v": list(good)}
    if kind == "focal":
        case["fp"] = draw(st.one_of(st.sampled_from(["ffp", "sfp", "sfp", "Sfp", "sFP", "XFP", "", "FFP ", "F", "lwir", "Lwir", "TFP"]),
                                    st.text(min_size=0, max_size=5).filter(lambda s: s not in ("FFP", "SFP", "LWIR"))))
    elif kind == "sfp-nocal":
        case["fp"] = "SFP"
        case["calib"] = None
    elif kind in ("h<=0", "v<=0"):
        case["fp"] = draw(st.sampled_from(["FFP", "SFP", "LWIR"]))
        val = draw(st.one_of(st.just(0.0), st.floats(-20.0, -1e-6)))
        u = draw(st.sampled_from([x for x in ANG]))
        case["h" if kind == "h<=0" else "v"] = [val, u]
        case["bare"] = draw(st.booleans())
    else:
        case["fp"] = draw(st.sampled_from(["FFP", "SFP", "LWIR"]))
        case["which"] = draw(st.sampled_from(["h", "v", "both"]))
    return case


def check_invalid(case):
    r = Res()
    kind = case["kind"]
    r.label("invalid:" + kind)
    r.nontrivial = True
    calib = _q(case["calib"]) if case["calib"] else None
    h, v = _q(case["h"]), _q(case["v"])
    if kind in ("h<=0", "v<=0") and case.get("bare"):
        # bare numbers are read in the preferred adjustment unit: sign is what matters
        if kind == "h<=0":
            h = case["h"][0]
        else:
            v = case["v"][0]
    if kind == "none-click":
        if case["which"] in ("h", "both"):
            h = None
        if case["which"] in ("v", "both"):
            v = None
    if kind == "focal" and case["fp"].upper() in ("FFP", "SFP", "LWIR"):
        # another letter case of a known name: rejecting it is fine; a library that accepts it must then treat it as that focal
        # plane in every respect - the missing calibration distance of a second-focal-plane sight included
        r.label("invalid:focal:letter-case-variant")
        canon = case["fp"].upper()
        try:
            s = pb.Sight(case["fp"], calib, h, v)
        except Exception:  # noqa
            s = None
        if s is not None:
            ref_s = pb.Sight(canon, calib, h, v)
            args = (pb.Distance.Meter(300.0), pb.Angular.Mil(1.3), pb.Angular.Mil(-0.7), 8.0)
            a, b = s.get_adjustment(*args), ref_s.get_adjustment(*args)
            if (a.vertical, a.horizontal) != (b.vertical, b.horizontal):
                r.bad("C19:accepts:focal:letter-case-variant-differs", f"Sight({case['fp']!r}, ...) is accepted but counts {a} where Sight({canon!r}, ...) counts {b}")
        if canon == "SFP":
            try:
                s2 = pb.Sight(case["fp"], None, h, v)
            except Exception:  # noqa
                return r
            r.bad("C19:accepts:sfp-nocal", f"Sight({case['fp']!r}, None, ...) was accepted as a second-focal-plane sight without a calibration distance: {s2}")
        return r
    try:
        s = pb.Sight(case["fp"], calib, h, v)
    except Exception:  # rejected, as required
        return r
    key = f"C19:accepts:{kind}"
    r.bad(key, f"Sight({case['fp']!r}, {case['calib']}, h={case['h']}, v={case['v']}) was accepted: {s}")
    return r


def parts(tier):
    return [
        Part("clicks", strategy=_valid(), check=check_valid, n={"quick": 16000, "thorough": 2000000}),
        Part("rejects", strategy=_invalid(), check=check_invalid, n={"quick": 3000, "thorough": 60000}),
    ]


MANIFEST = {
    "technique": "Hypothesis-generated sights and corrections against the algebraic click law per focal plane; generated invalid constructions must be rejected",
    "text": "clicks x effective click = correction (1e-8 rel) separately for elevation and windage, for FFP/SFP/LWIR with independently "
            "drawn h and v click sizes in all angular units, all distance units, via get_adjustment and get_trajectory_adjustment; sign, "
            "linearity and constructor rejections. Exploration level over generated inputs.",
    "note": "preferred distance unit generated for the query (bare target distances are read in it); SFP scaling accepted in radians or in the click's given unit (they differ only for tangent units)",
}
