"""C08 - Atmosphere reproduces the ISA and is self-consistent across altitude."""
import math
from hypothesis import strategies as st

from .. import lib, ref
from ..core import Part, Res

pb = lib.pb
Unit = pb.Unit

ID = "C08"
RULE = ("altitudes -1400..36000 ft (uniform, every 1000 ft, edges); station/query pairs with |d| around 0 / 30 ft / far; "
        "stations with temperature -60..60 C, pressure 500..1100 hPa, humidity 0..100 given as percent or fraction "
        "(edges 1, 1.0001, 1.5, 2, 99.999, 100 over-weighted), out-of-range humidity; histories of query / humidity-setter "
        "operations on one live station compared with a freshly built one; non-trivial = query altitude differs from the "
        "station by > 30 ft (isa, pairs), the two stations differ by a real step (monotone), a setter call after an "
        "off-station query (history), any (vacuum, reject); distinct = distinct case dicts")
ASSUMPTIONS = ["ISA reference in SI (vf/ref.py): T0 288.15 K, p0 101325 Pa, L 6.5 K/km, R 287.05287, g 9.80665, gamma 1.4; "
               "geometric altitude used as geopotential (as the library does)",
               "1e-4 relative tolerance for ISA agreement; exact equality for station-altitude queries, percent/fraction "
               "equivalence, vacuum zero and live-vs-fresh comparison",
               "shortcut jump bound: 1.01 x the dry lapse over max(|d|, 30) ft + 1e-5 relative (6-digit model constants)",
               "monotonicity in temperature is asserted at the station altitude only (aloft a warmer column is physically denser)"]

REL = 1e-4
FT = 0.3048
# the model's constants are published to 6 significant digits (49.0223 vs 20.0467 x 3.2808399 differ by 5e-6); the
# station value and the lapse formula may differ by that much on top of the lapse itself
CONST_DIGITS = 1e-5
EXP_RHO = ref.ISA_G / (ref.ISA_R * ref.ISA_L) - 1.0   # density ~ T^(g/RL - 1)


def _alt():
    return st.one_of(st.floats(-1400.0, 36000.0), st.integers(-1, 36).map(lambda k: 1000.0 * k),
                     st.sampled_from([-1400.0, 0.0, 36000.0, 35999.0, 29.0, 31.0, -31.0]))


def _hum():
    return st.one_of(st.floats(0.0, 100.0), st.floats(0.0, 1.0),
                     st.sampled_from([0.0, 1.0, 1.0001, 1.5, 2.0, 50.0, 99.999, 100.0, 0.5, 0.999]))


def _rel(a, b):
    return abs(a - b) / max(abs(b), 1e-300)


# ------------------------------------------------------------------------------------------------ ISA
_PREFS = st.one_of(st.none(), st.fixed_dictionaries({"temperature": st.sampled_from(ref.UNITS_BY_DIM["temperature"]),
                                                      "pressure": st.sampled_from(ref.UNITS_BY_DIM["pressure"]),
                                                      "distance": st.sampled_from(["Foot", "Meter", "Yard", "Kilometer"]),
                                                      "velocity": st.sampled_from(ref.UNITS_BY_DIM["velocity"])}))


def _prefs(r, case):
    """the preferred units in force while the station is built from explicit quantities: they must not matter"""
    if case.get("prefs"):
        for slot, un in case["prefs"].items():
            setattr(pb.PreferredUnits, slot, Unit[un])
        r.label("preferred-units-changed")


@st.composite
def _isa_case(draw):
    a0 = draw(_alt())
    mode = draw(st.sampled_from(["near", "edge", "far", "far", "same"]))
    if mode == "near":
        d = draw(st.floats(-60.0, 60.0))
    elif mode == "edge":
        d = draw(st.sampled_from([29.999, 30.0, 30.001, -29.999, -30.0, -30.001, 29.9999999, 30.0000001]))
    elif mode == "same":
        d = 0.0
    else:
        d = draw(st.floats(-37400.0, 37400.0))
    h = min(36000.0, max(-1400.0, a0 + d))
    return {"a0": a0, "h": h, "unit": draw(st.sampled_from(ref.UNITS_BY_DIM["distance"])),
            # history: the same bare number under two preferred distance units, one after the other
            "bare": draw(st.one_of(st.none(), st.floats(-400.0, 10000.0))),
            "bare_units": draw(st.permutations(["Foot", "Yard", "Meter"]))[:2], "prefs": draw(_PREFS)}


def check_isa(case):
    r = Res()
    a0, h = case["a0"], case["h"]
    u = Unit[case["unit"]]
    _prefs(r, case)
    # 1. standard atmosphere at h (altitude given in any distance unit)
    at = pb.Atmo.icao(u(pb.Distance.Foot(h) >> u))
    t, p, rho, a = ref.isa(h * FT)
    got = {"temperature": (at.temperature >> pb.Temperature.Kelvin, t),
           "pressure": (at.pressure >> pb.Pressure.hPa, p / 100.0),
           "density_ratio": (at.density_ratio, rho / 1.225),
           "speed_of_sound": (at.mach >> pb.Velocity.MPS, a)}
    worst = 0.0
    for name, (g, w) in got.items():
        e = _rel(g, w)
        worst = max(worst, e)
        if not e <= REL:
            r.bad(f"C08:isa:{name}", f"Atmo.icao({h!r} ft).{name} = {g!r}, ISA {w!r} (rel {e:.2e})")
    r.target = worst
    # 2. standard station at a0 predicting h
    st0 = pb.Atmo.icao(pb.Distance.Foot(a0))
    d_pred, m_pred = st0.get_density_factor_and_mach_for_altitude(h)
    here = pb.Atmo.icao(pb.Distance.Foot(h))
    # inside the documented shortcut region (|d| < 30 ft) the station's own values are admissible: the allowance is
    # the 30-ft lapse of the dry formulas (written independently) on top of the 1e-4 agreement
    tol_d, tol_m = REL, REL
    if abs(h - a0) < 30.0 * (1 + 1e-9):
        t_st = ref.isa(a0 * FT)[0]
        tol_d += abs(1 - ((t_st - ref.ISA_L * 30 * FT) / t_st) ** EXP_RHO) * 1.01
        tol_m += abs(1 - math.sqrt((t_st - ref.ISA_L * 30 * FT) / t_st)) * 1.01
    if not _rel(d_pred, here.density_ratio) <= tol_d:
        r.bad("C08:self-consistency:density", f"standard station at {a0!r} ft predicts density ratio {d_pred!r} at {h!r} ft, "
              f"standard station there has {here.density_ratio!r}")
    if not _rel(m_pred, here.mach >> pb.Velocity.FPS) <= tol_m:
        r.bad("C08:self-consistency:mach", f"standard station at {a0!r} ft predicts speed of sound {m_pred!r} fps at {h!r} ft, "
              f"standard station there has {here.mach >> pb.Velocity.FPS!r}")
    # and against the ISA directly
    if not _rel(d_pred, rho / 1.225) <= REL + tol_d:
        r.bad("C08:prediction-vs-isa:density", f"station {a0!r} ft -> {h!r} ft: {d_pred!r} vs ISA {rho / 1.225!r}")
    if not _rel(m_pred * FT, a) <= REL + tol_m:
        r.bad("C08:prediction-vs-isa:mach", f"station {a0!r} ft -> {h!r} ft: {m_pred * FT!r} m/s vs ISA {a!r}")
    # 3. at the station altitude: the station's own values, exactly
    d0, m0 = st0.get_density_factor_and_mach_for_altitude(a0)
    if d0 != st0.density_ratio or abs(m0 - (st0.mach >> pb.Velocity.FPS)) > 4 * math.ulp(m0):
        r.bad("C08:station-altitude-not-own-values", f"query at the station altitude {a0!r} ft returns ({d0!r}, {m0!r}), "
              f"station has ({st0.density_ratio!r}, {st0.mach >> pb.Velocity.FPS!r})")
    if case.get("bare") is not None and not r.violations:
        v = case["bare"]
        for un in case["bare_units"]:
            pb.PreferredUnits.distance = Unit[un]
            hb = ref.convert(v, un, "Foot")
            atb = pb.Atmo.icao(v)          # a bare number: v in the unit preferred right now
            tb, pb_, rhob, ab = ref.isa(hb * FT)
            for name, g, w in (("temperature", atb.temperature >> pb.Temperature.Kelvin, tb), ("pressure", atb.pressure >> pb.Pressure.hPa, pb_ / 100.0),
                               ("density_ratio", atb.density_ratio, rhob / 1.225), ("speed_of_sound", atb.mach >> pb.Velocity.MPS, ab)):
                if not _rel(g, w) <= REL:
                    r.bad(f"C08:isa:bare-altitude:{name}", f"Atmo.icao({v!r}) with distance preferred in {un} ({hb!r} ft): {name} = {g!r}, ISA {w!r}")
                    break
            if r.violations:
                break
        pb.PreferredUnits.defaults()
        r.label("bare-altitude-two-units")
    r.nontrivial = abs(h - a0) > 30.0
    r.label("d<30" if abs(h - a0) < 30 else "d>=30")
    return r


# ------------------------------------------------------------------------------------------------ arbitrary stations
@st.composite
def _station(draw):
    return {"alt": draw(_alt()), "t_c": draw(st.one_of(st.floats(-60.0, 60.0), st.sampled_from([15.0, 0.0, -20.0]))),
            "p_hpa": draw(st.floats(500.0, 1100.0)), "hum": draw(_hum())}


def _mk(s, hum=None):
    return pb.Atmo(pb.Distance.Foot(s["alt"]), pb.Pressure.hPa(s["p_hpa"]), pb.Temperature.Celsius(s["t_c"]),
                   s["hum"] if hum is None else hum)


@st.composite
def _shortcut_case(draw):
    s = draw(_station())
    return {"station": s, "d": draw(st.one_of(st.floats(-60.0, 60.0),
                                              st.sampled_from([29.999, 30.0, 30.001, -29.999, -30.0, -30.001, 0.0, 1e-9]))),
            "prefs": draw(_PREFS)}


def check_shortcut(case):
    r = Res()
    s, d = case["station"], case["d"]
    _prefs(r, case)
    at = _mk(s)
    d0, m0 = at.density_ratio, at.mach >> pb.Velocity.FPS
    own = at.get_density_factor_and_mach_for_altitude(s["alt"])
    if own[0] != d0 or abs(own[1] - m0) > 4 * math.ulp(m0):
        r.bad("C08:station-altitude-not-own-values", f"query at the station altitude returns {own!r}, station has {(d0, m0)!r}")
    dq, mq = at.get_density_factor_and_mach_for_altitude(s["alt"] + d)
    # admissible change: the lapse over max(|d|, 30) ft, by the dry adiabatic formulas written independently
    span = max(abs(d), 30.0) * FT
    t0 = s["t_c"] + 273.15
    worst_t = max(t0 - ref.ISA_L * span, 183.0)  # the model floors the temperature near -90 C
    lapse_rho = max(abs(1 - (worst_t / t0) ** EXP_RHO), abs(1 - ((t0 + ref.ISA_L * span) / t0) ** EXP_RHO))
    lapse_a = max(abs(1 - math.sqrt(worst_t / t0)), abs(1 - math.sqrt((t0 + ref.ISA_L * span) / t0)))
    if not abs(dq - d0) <= (1.01 * lapse_rho + CONST_DIGITS) * d0:
        r.bad("C08:shortcut-jump:density", f"station {s}: density ratio at d={d!r} ft is {dq!r} vs station {d0!r}: change "
              f"{abs(dq - d0) / d0:.3e} exceeds the {max(abs(d), 30.0)}-ft lapse {lapse_rho:.3e}")
    if not abs(mq - m0) <= (1.01 * lapse_a + CONST_DIGITS) * m0:
        r.bad("C08:shortcut-jump:mach", f"station {s}: speed of sound at d={d!r} ft is {mq!r} vs station {m0!r}")
    r.nontrivial = d != 0.0
    r.label("|d|<30" if abs(d) < 30 else "|d|>=30")
    return r


@st.composite
def _mono_case(draw):
    s = draw(_station())
    which = draw(st.sampled_from(["pressure", "temperature", "humidity", "humidity", "percent-fraction"]))
    case = {"station": s, "which": which, "h": s["alt"] + draw(st.one_of(st.just(0.0), st.floats(-5000.0, 15000.0)))}
    if which == "pressure":
        case["step"] = draw(st.floats(0.01, 300.0))
    elif which == "temperature":
        case["step"] = draw(st.floats(0.01, 60.0))
    elif which == "humidity":
        # two humidity values in percent terms, each possibly expressed as a fraction
        lo = draw(st.floats(0.0, 99.0))
        hi = min(100.0, lo + draw(st.one_of(st.floats(1.0, 100.0), st.floats(0.0, 1.0))))
        case["lo"], case["hi"] = lo, hi
        case["lo_as_fraction"], case["hi_as_fraction"] = draw(st.booleans()), draw(st.booleans())
    else:
        case["p"] = draw(st.one_of(st.floats(1.0, 100.0, exclude_min=True), st.sampled_from([1.0001, 1.5, 2.0, 50.0, 99.999, 100.0])))
    return case


def _as_arg(pct, as_fraction):
    """a humidity of pct percent, passed as percent (>1) or as a fraction (<=1)"""
    if as_fraction or pct <= 1.0:
        return pct / 100.0, pct / 100.0 * 100.0
    return pct, pct


def check_mono(case):
    r = Res()
    s, which, h = case["station"], case["which"], case["h"]
    h = min(36000.0, max(-1400.0, h))
    r.label(which)
    if which == "pressure":
        a = _mk(s)
        s2 = dict(s, p_hpa=s["p_hpa"] + case["step"])
        b = _mk(s2)
        for name, x, y in (("station", a.density_ratio, b.density_ratio),
                           ("aloft", a.get_density_factor_and_mach_for_altitude(h)[0], b.get_density_factor_and_mach_for_altitude(h)[0])):
            if not y > x:
                r.bad(f"C08:monotone:pressure:{name}", f"{s}: raising pressure by {case['step']!r} hPa changes density ratio {x!r} -> {y!r}")
        r.nontrivial = True
    elif which == "temperature":
        a = _mk(s)
        b = _mk(dict(s, t_c=s["t_c"] + case["step"]))
        if not b.density_ratio < a.density_ratio:
            r.bad("C08:monotone:temperature", f"{s}: raising temperature by {case['step']!r} C changes density ratio "
                  f"{a.density_ratio!r} -> {b.density_ratio!r}")
        if not (b.mach >> pb.Velocity.FPS) > (a.mach >> pb.Velocity.FPS):
            r.bad("C08:monotone:speed-of-sound", f"{s}: raising temperature does not raise the speed of sound")
        r.nontrivial = True
    elif which == "humidity":
        lo_arg, lo_pct = _as_arg(case["lo"], case["lo_as_fraction"])
        hi_arg, hi_pct = _as_arg(case["hi"], case["hi_as_fraction"])
        if hi_pct < lo_pct:
            return r
        a, b = _mk(s, lo_arg), _mk(s, hi_arg)
        strict = s["t_c"] > -20.0 and hi_pct - lo_pct >= 1.0
        for name, x, y in (("station", a.density_ratio, b.density_ratio),
                           ("aloft", a.get_density_factor_and_mach_for_altitude(h)[0], b.get_density_factor_and_mach_for_altitude(h)[0])):
            if y > x or (strict and not y < x):
                r.bad(f"C08:monotone:humidity:{name}", f"{s}: humidity {lo_pct!r}% (passed as {lo_arg!r}) -> {hi_pct!r}% (passed as {hi_arg!r}) "
                      f"changes density ratio {x!r} -> {y!r}")
        r.nontrivial = strict
        r.label("fraction" if (case["lo_as_fraction"] or case["hi_as_fraction"]) else "percent")
    else:
        p = case["p"]
        a, b = _mk(s, p), _mk(s, p / 100.0)
        if a.density_ratio != b.density_ratio or a.humidity != b.humidity:
            r.bad("C08:percent-vs-fraction", f"{s}: humidity={p!r} gives density ratio {a.density_ratio!r} (stored {a.humidity!r}), "
                  f"humidity={p / 100.0!r} gives {b.density_ratio!r} (stored {b.humidity!r})")
        if a.get_density_factor_and_mach_for_altitude(h) != b.get_density_factor_and_mach_for_altitude(h):
            r.bad("C08:percent-vs-fraction:aloft", f"{s}: humidity={p!r} vs {p / 100.0!r} differ at {h!r} ft")
        r.nontrivial = True
    return r


# ------------------------------------------------------------------------------------------------ vacuum / rejects
@st.composite
def _vac_case(draw):
    return {"alt": draw(st.one_of(st.none(), _alt())), "t_c": draw(st.one_of(st.none(), st.floats(-60.0, 60.0))),
            "queries": draw(st.lists(st.one_of(_alt(), st.floats(-1400.0, 100000.0)), min_size=1, max_size=8)),
            "set_hum": draw(st.one_of(st.none(), _hum()))}


def check_vacuum(case):
    r = Res()
    kw = {}
    if case["alt"] is not None:
        kw["altitude"] = pb.Distance.Foot(case["alt"])
    if case["t_c"] is not None:
        kw["temperature"] = pb.Temperature.Celsius(case["t_c"])
    v = pb.Vacuum(**kw)
    if v.density_ratio != 0:
        r.bad("C08:vacuum:density_ratio", f"Vacuum density_ratio = {v.density_ratio!r}")
    if case["set_hum"] is not None:
        v.humidity = case["set_hum"]
        if v.density_ratio != 0:
            r.bad("C08:vacuum:density_ratio-after-humidity-setter", f"after setting humidity: {v.density_ratio!r}")
        r.label("humidity-set")
    base = case["alt"] or 0.0
    for q in case["queries"]:
        d, m = v.get_density_factor_and_mach_for_altitude(q)
        if d != 0:
            r.bad("C08:vacuum:density-aloft", f"Vacuum at {base!r} ft reports density factor {d!r} at {q!r} ft")
            break
        if not m > 0:
            r.bad("C08:vacuum:mach", f"Vacuum speed of sound {m!r} at {q!r} ft")
            break
    r.nontrivial = any(abs(q - base) >= 30 for q in case["queries"])
    return r


@st.composite
def _reject_case(draw):
    return {"station": draw(_station()),
            "bad": draw(st.one_of(st.floats(-50.0, 0.0, exclude_max=True), st.floats(100.0, 1000.0, exclude_min=True),
                                  st.sampled_from([-1e-9, 100.0000001, -1.0, 101.0, 1000.0]))),
            "via": draw(st.sampled_from(["constructor", "setter", "icao"]))}


def check_reject(case):
    r = Res()
    s, bad, via = case["station"], case["bad"], case["via"]
    r.label(via)
    r.nontrivial = True
    try:
        if via == "constructor":
            _mk(s, bad)
        elif via == "icao":
            pb.Atmo.icao(pb.Distance.Foot(s["alt"]), humidity=bad)
        else:
            at = _mk(dict(s, hum=50.0))
            before = (at.humidity, at.density_ratio)
            try:
                at.humidity = bad
            except Exception:
                if (at.humidity, at.density_ratio) != before:
                    r.bad("C08:humidity-reject:state-changed", f"rejected humidity {bad!r} still changed the station")
                raise
    except Exception:
        return r
    r.bad(f"C08:humidity-out-of-range-accepted:{via}", f"humidity {bad!r} accepted via {via}")
    return r


# ------------------------------------------------------------------------------------------------ histories on a live station
@st.composite
def _hist_case(draw):
    s = draw(_station())
    ops = []
    for _ in range(draw(st.integers(2, 8))):
        if draw(st.booleans()):
            ops.append(["query", s["alt"] + draw(st.one_of(st.floats(-3000.0, 12000.0), st.sampled_from([0.0, 10.0, 29.0, 31.0, 5000.0])))])
        else:
            ops.append(["set_humidity", draw(_hum())])
    return {"station": s, "ops": ops, "probe": [s["alt"], s["alt"] + 10.0, s["alt"] + 1000.0, s["alt"] - 500.0, s["alt"] + 9000.0]}


def check_history(case):
    r = Res()
    s = dict(case["station"])
    live = _mk(s)
    queried_off = False
    nt = False
    for op, arg in case["ops"]:
        if op == "query":
            live.get_density_factor_and_mach_for_altitude(min(36000.0, max(-1400.0, arg)))
            if abs(arg - s["alt"]) >= 30:
                queried_off = True
        else:
            live.humidity = arg
            s["hum"] = arg
            nt = nt or queried_off
        fresh = _mk(s)
        if live.density_ratio != fresh.density_ratio or live.humidity != fresh.humidity:
            r.bad("C08:history:station-values", f"after {op}({arg!r}) the live station has density ratio {live.density_ratio!r}, "
                  f"a fresh station with the same parameters {fresh.density_ratio!r}")
            break
        for q in case["probe"]:
            q = min(36000.0, max(-1400.0, q))
            a, b = live.get_density_factor_and_mach_for_altitude(q), fresh.get_density_factor_and_mach_for_altitude(q)
            if a != b:
                r.bad("C08:history:prediction-differs-from-fresh-station",
                      f"after {op}({arg!r}) the live station predicts {a!r} at {q!r} ft, a fresh station with the same parameters {b!r}")
                break
        if r.violations:
            break
    r.nontrivial = nt
    return r


def parts(tier):
    return [
        Part("isa", strategy=_isa_case(), check=check_isa, n={"quick": 12000, "thorough": 400000}),
        Part("shortcut", strategy=_shortcut_case(), check=check_shortcut, n={"quick": 8000, "thorough": 200000}),
        Part("monotone", strategy=_mono_case(), check=check_mono, n={"quick": 12000, "thorough": 300000}),
        Part("vacuum", strategy=_vac_case(), check=check_vacuum, n={"quick": 3000, "thorough": 60000}),
        Part("reject", strategy=_reject_case(), check=check_reject, n={"quick": 3000, "thorough": 60000}),
        Part("history", strategy=_hist_case(), check=check_history, n={"quick": 4000, "thorough": 100000}),
    ]


MANIFEST = {
    "technique": "Hypothesis-generated altitudes / stations / humidity encodings against an independent ISA model, self-consistency, monotonicity and live-vs-fresh differential over operation histories",
    "text": "ISA agreement (1e-4) of Atmo.icao at generated altitudes in all distance units; standard station predictions equal standard stations aloft; exact station-altitude identity; "
            "30-ft shortcut bounded by the lapse; monotonicity in pressure/temperature/humidity (percent and fraction encodings); Vacuum exactly zero everywhere; out-of-range humidity rejected "
            "(constructor, setter, icao); a live station after any query/setter history equals a freshly built one. Exploration level.",
    "note": "ISA constants in vf/ref.py; geometric altitude treated as geopotential like the library; temperature monotonicity only at the station altitude",
}
