"""C09 - Drag used by the solver is faithful to the drag table and BC definition."""
import copy
import json
import math
import os
from hypothesis import strategies as st

from .. import lib, ref
from ..core import Part, Res

pb = lib.pb
Unit = pb.Unit

ID = "C09"
RULE = ("the nine shipped tables x 4 BC values are enumerated exhaustively: every node, both sides of every node (+-1e-9, "
        "+-1e-3 of the gap), every interval at fractions {0.001,0.25,0.4999,0.5,0.5001,0.75,0.999} and 0.1..2x beyond "
        "the last node; custom tables are generated (3..40 strictly ascending nodes, spacing >= 0.01, CD 0.05..2, BC "
        "0.01..5) with queries biased to nodes and midpoints; histories of in-place BC / table edits on a reused "
        "calculator; non-trivial = any shipped-table case, custom table with >= 4 nodes, history with an in-place edit "
        "after a first use; distinct = distinct case dicts")
ASSUMPTIONS = ["observation point: Calculator._calc._init_trajectory(shot) then _calc.drag_by_mach(M) (pure-Python backend)",
               "set-valued interpolation oracle: either neighbouring node's parabola is admissible; first interval also the straight line",
               "tolerance 1e-9 relative + 1e-11 x (|a|M^2+|b|M+|c|) conditioning slack for the parabola coefficients",
               "golden tables ref/drag_tables_golden.json transcribed from the pinned commit, cross-checked with the examples copy and published G1/G7 values"]

TABLES = ["TableG1", "TableG7", "TableG2", "TableG5", "TableG6", "TableG8", "TableGI", "TableGS", "TableRA4"]
KCONST = 0.076474 * math.pi / 1152.0
with open(os.path.join(os.path.dirname(os.path.dirname(os.path.dirname(os.path.abspath(__file__)))), "ref",
                       "drag_tables_golden.json"), encoding="utf-8") as _fh:
    GOLDEN = json.load(_fh)["tables"]


def _calc_for(dm):
    shot = pb.Shot(pb.Weapon(pb.Distance.Inch(2)), pb.Ammo(dm, pb.Velocity.FPS(2600)))
    calc = pb.Calculator()
    calc._calc._init_trajectory(shot)
    return calc, shot


def _coeffs(p0, p1, p2):
    (x0, y0), (x1, y1), (x2, y2) = p0, p1, p2
    d0 = (x0 - x1) * (x0 - x2)
    d1 = (x1 - x0) * (x1 - x2)
    d2 = (x2 - x0) * (x2 - x1)
    a = y0 / d0 + y1 / d1 + y2 / d2
    b = -(y0 * (x1 + x2) / d0 + y1 * (x0 + x2) / d1 + y2 * (x0 + x1) / d2)
    c = y0 * x1 * x2 / d0 + y1 * x0 * x2 / d1 + y2 * x0 * x1 / d2
    return a, b, c


def _admissible(nodes, m):
    """[(value, slack, name)] of admissible interpolants for query Mach m >= nodes[0][0]"""
    n = len(nodes)
    xs = [p[0] for p in nodes]
    out = []

    def para(i):  # parabola through nodes i-1, i, i+1
        p = nodes[i - 1:i + 2]
        val = ref.lagrange3(m, *p)
        a, b, c = _coeffs(*p)
        # conditioning: the coefficients come from divided differences over the node gaps, so their rounding error is
        # ~eps * |y| / gap^2 and is amplified by the squared distance of the query from the nodes (matters for dense
        # nodes and for extrapolation far beyond the table)
        dmin = min(p[1][0] - p[0][0], p[2][0] - p[1][0])
        dist = max(abs(m - p[0][0]), abs(m - p[2][0]))
        cond = 64 * 2.3e-16 * max(abs(p[0][1]), abs(p[1][1]), abs(p[2][1])) * (dist / dmin) ** 2
        return val, 1e-11 * (abs(a) * m * m + abs(b) * abs(m) + abs(c)) + cond, f"parabola({i - 1},{i},{i + 1})"

    if m >= xs[-1]:
        out.append(para(n - 2))
        return out
    if m < xs[0]:
        # below a table that does not start at Mach 0 the statement names no interpolant: the first interval's line
        # continued, the first parabola continued, or the first entry held are all accepted
        out.append((ref.line2(m, nodes[0], nodes[1]), 1e-12, "line(0,1)"))
        out.append(para(1))
        out.append((nodes[0][1], 1e-12, "first-entry"))
        return out
    # interval j: xs[j] <= m < xs[j+1]
    j = max(i for i in range(n - 1) if xs[i] <= m)
    if j >= 1:
        out.append(para(j))
    if j + 2 <= n - 1:
        out.append(para(j + 1))
    if j == 0:
        out.append((ref.line2(m, nodes[0], nodes[1]), 1e-12, "line(0,1)"))
    return out


def _check_queries(r, tag, nodes, bc, calc, queries, node_idx=()):
    k0 = calc._calc.drag_by_mach(nodes[0][0]) * bc
    if not k0 > 0:
        r.bad(f"C09:{tag}:first-node-nonpositive", f"drag at first node is {k0!r}")
        return 0.0
    scale = nodes[0][1] / k0
    worst = 0.0
    for m in queries:
        cd = calc._calc.drag_by_mach(m) * bc * scale
        adm = _admissible(nodes, m)
        errs = [(abs(cd - v) - s) / max(abs(v), 1e-3) for v, s, _ in adm]
        e = min(errs)
        worst = max(worst, min(abs(cd - v) / max(abs(v), 1e-3) for v, s, _ in adm))
        if not e <= 1e-9:
            xs = [p[0] for p in nodes]
            where = "beyond-last" if m >= xs[-1] else ("node" if m in xs else "below-first" if m < xs[0] else "interior")
            j = max([i for i in range(len(xs)) if xs[i] <= m], default=0)
            pos = "last-interval" if j >= len(xs) - 2 else ("first-interval" if j == 0 else "middle")
            r.bad(f"C09:{tag}:interpolation:{where}:{pos}",
                  f"Mach {m!r}: solver Cd {cd!r}, admissible {[(nm, v) for v, s, nm in adm]}", mach=m, interval=j)
            break
    for i in node_idx:
        m, cdn = nodes[i]
        cd = calc._calc.drag_by_mach(m) * bc * scale
        if not abs(cd - cdn) <= 1e-9 * cdn + 1e-11 * (1 + m * m) * 0:
            # nodes: the parabola through the node reproduces it up to rounding of its coefficients
            a, b, c = _coeffs(*nodes[max(1, min(i, len(nodes) - 2)) - 1:max(1, min(i, len(nodes) - 2)) + 2])
            slack = 1e-11 * (abs(a) * m * m + abs(b) * m + abs(c))
            if not abs(cd - cdn) <= 1e-9 * cdn + slack:
                r.bad(f"C09:{tag}:node-value", f"node {i} Mach {m!r}: solver Cd {cd!r}, table {cdn!r}", node=i)
                break
    return worst


def _shipped_cases():
    for t in TABLES:
        for bc in (0.01, 0.3, 1.0, 5.0):
            yield {"table": t, "bc": bc}


def check_shipped(case):
    r = Res()
    name, bc = case["table"], case["bc"]
    r.label(name)
    std = getattr(pb, name)
    # 5. golden copy, ascending from Mach 0
    got = [[d["Mach"], d["CD"]] for d in std]
    if got != GOLDEN[name]:
        i = next((i for i, (a, b) in enumerate(zip(got, GOLDEN[name])) if a != b), min(len(got), len(GOLDEN[name])))
        r.bad(f"C09:table-differs-from-published:{name}", f"{name} entry {i}: {got[i] if i < len(got) else None} vs "
              f"published {GOLDEN[name][i] if i < len(GOLDEN[name]) else None}")
    if got[0][0] != 0 or any(got[i][0] >= got[i + 1][0] for i in range(len(got) - 1)):
        r.bad(f"C09:table-not-ascending-from-zero:{name}", f"{name} does not ascend strictly from Mach 0")
    nodes = [tuple(x) for x in GOLDEN[name]]
    dm = pb.DragModel(bc, std)
    calc, shot = _calc_for(dm)
    xs = [p[0] for p in nodes]
    qs = []
    for j in range(len(xs) - 1):
        gap = xs[j + 1] - xs[j]
        for f in (0.001, 0.25, 0.4999, 0.5, 0.5001, 0.75, 0.999):
            qs.append(xs[j] + f * gap)
        qs.extend([xs[j] + 1e-9, xs[j] + 1e-3 * gap, xs[j + 1] - 1e-9, xs[j + 1] - 1e-3 * gap])
    last = xs[-1]
    for f in (1e-9, 0.1, 0.5, 1.0, 2.0):
        qs.append(last * (1 + f))
    worst = _check_queries(r, "shipped", nodes, bc, calc, qs, node_idx=range(len(nodes)))
    r.target = worst
    # 3. positive and within 5 % of the linear interpolant between neighbouring entries
    k0 = calc._calc.drag_by_mach(xs[0]) * bc
    scale = nodes[0][1] / k0
    for m in qs:
        if m >= last:
            continue
        cd = calc._calc.drag_by_mach(m) * bc * scale
        j = max(i for i in range(len(xs) - 1) if xs[i] <= m)
        lin = ref.line2(m, nodes[j], nodes[j + 1])
        if not cd > 0:
            r.bad("C09:shipped:nonpositive-cd", f"{name} Mach {m!r}: Cd {cd!r}")
            break
        if abs(cd - lin) > 0.05 * lin:
            r.bad("C09:shipped:far-from-linear-interpolant", f"{name} Mach {m!r}: Cd {cd!r} vs linear {lin!r} ({abs(cd - lin) / lin:.3%})")
            break
    # 4. drag constant and BC scaling
    kk = calc._calc.drag_by_mach(xs[0]) * bc / nodes[0][1]
    if not abs(kk - KCONST) <= 1e-5 * KCONST:
        r.bad("C09:drag-constant", f"retardation per Cd is {kk!r}, standard density x pi / (8 x 144) = {KCONST!r}")
    calc2, _ = _calc_for(pb.DragModel(bc * 2.5, std))
    for m in (0.0, 0.7, 1.0, 1.3, 2.2, 4.1):
        a, b = calc._calc.drag_by_mach(m), calc2._calc.drag_by_mach(m)
        if not abs(a / b - 2.5) <= 1e-12 * 2.5:
            r.bad("C09:bc-scaling", f"{name} Mach {m!r}: drag ratio {a / b!r} for BC ratio 2.5")
            break
    r.nontrivial = True
    return r


@st.composite
def _custom(draw):
    n = draw(st.one_of(st.integers(3, 6), st.integers(3, 40)))
    x = draw(st.sampled_from([0.0, 0.0, 0.0, 0.3, 0.5]))
    nodes = []
    for i in range(n):
        if i:
            x += draw(st.one_of(st.floats(0.01, 0.5), st.sampled_from([0.01, 0.025, 0.05, 0.1, 0.2]),
                               st.sampled_from([0.005, 0.002, 0.005, 0.001])))   # radar-style dense sampling
        nodes.append([x, draw(st.floats(0.05, 2.0))])
    qs = []
    for _ in range(12):
        kind = draw(st.sampled_from(["node", "mid", "frac", "side", "beyond"] + (["below"] if nodes[0][0] > 0 else [])))
        j = draw(st.integers(0, n - 2))
        gap = nodes[j + 1][0] - nodes[j][0]
        if kind == "node":
            qs.append(nodes[draw(st.integers(0, n - 1))][0])
        elif kind == "below":
            qs.append(nodes[0][0] * draw(st.one_of(st.floats(0.0, 1.0, exclude_max=True), st.sampled_from([0.0, 0.5, 0.999999]))))
        elif kind == "mid":
            qs.append(nodes[j][0] + gap * draw(st.sampled_from([0.4999, 0.5, 0.5001])))
        elif kind == "frac":
            qs.append(nodes[j][0] + gap * draw(st.floats(0.0, 1.0)))
        elif kind == "side":
            qs.append(nodes[j][0] + draw(st.sampled_from([1e-9, 1e-6])) * gap)
        else:
            # beyond the table: the parabola through the last three points, followed for at most 50 of their smallest gap
            # (further out the extrapolation of densely spaced nodes is ill-conditioned beyond any meaningful tolerance)
            dmin = min(nodes[-1][0] - nodes[-2][0], nodes[-2][0] - nodes[-3][0])
            far = min(nodes[-1][0] * 2.0 + 1.0, 50.0 * dmin)
            qs.append(nodes[-1][0] + draw(st.floats(0.0, 1.0)) * far)
    return {"nodes": nodes, "bc": 10 ** draw(st.floats(-2.0, math.log10(5.0))), "queries": qs,
            "as_points": draw(st.booleans())}


def check_custom(case):
    r = Res()
    nodes = [tuple(p) for p in case["nodes"]]
    bc = case["bc"]
    if case["as_points"]:
        table = [pb.DragDataPoint(m, c) for m, c in nodes]
    else:
        table = [{"Mach": m, "CD": c} for m, c in nodes]
    dm = pb.DragModel(bc, table)
    calc, shot = _calc_for(dm)
    r.label(f"nodes:{'3' if len(nodes) == 3 else '4-6' if len(nodes) <= 6 else '7+'}")
    if any(m < nodes[0][0] for m in case["queries"]):
        r.label("query-below-first-node")
    worst = _check_queries(r, "custom", nodes, bc, calc, case["queries"], node_idx=range(len(nodes)))
    r.target = worst
    kk = calc._calc.drag_by_mach(nodes[0][0]) * bc / nodes[0][1]
    if not abs(kk - KCONST) <= 1e-5 * KCONST:
        r.bad("C09:drag-constant", f"retardation per Cd is {kk!r}, expected {KCONST!r}")
    r.nontrivial = len(nodes) >= 4
    return r


# ---------------------------------------------------------------------------------------------- histories / mutation of tables
@st.composite
def _hist(draw):
    ops = []
    for _ in range(draw(st.integers(2, 6))):
        k = draw(st.sampled_from(["set_bc", "scale_cd", "other_model", "fire", "zero", "danger", "multibc"]))
        if k == "set_bc":
            ops.append([k, draw(st.floats(0.05, 1.5))])
        elif k == "scale_cd":
            ops.append([k, draw(st.floats(0.5, 1.5)), draw(st.integers(0, 60))])
        elif k == "other_model":
            ops.append([k, draw(st.sampled_from(TABLES)), draw(st.floats(0.05, 1.5))])
        else:
            ops.append([k])
    return {"table": draw(st.sampled_from(TABLES)), "bc": draw(st.floats(0.05, 1.5)), "ops": ops,
            "probes": draw(st.lists(st.floats(0.0, 5.5), min_size=3, max_size=3))}


def check_history(case):
    """One long-lived calculator against a fresh one after in-place edits of the drag model; shipped tables untouched."""
    r = Res()
    snapshot = {t: copy.deepcopy(getattr(pb, t)) for t in TABLES}
    dm = pb.DragModel(case["bc"], getattr(pb, case["table"]))
    weapon = pb.Weapon(pb.Distance.Inch(2))
    shot = pb.Shot(weapon, pb.Ammo(dm, pb.Velocity.FPS(2700)))
    calc = pb.Calculator()
    calc._calc._init_trajectory(shot)
    used = False
    nt = False
    for op in case["ops"]:
        k = op[0]
        if k == "set_bc":
            dm.BC = op[1]
            nt = nt or used
        elif k == "scale_cd":
            p = dm.drag_table[op[2] % len(dm.drag_table)]
            p.CD = p.CD * op[1]
            nt = nt or used
        elif k == "other_model":
            other = pb.Shot(weapon, pb.Ammo(pb.DragModel(op[2], getattr(pb, op[1])), pb.Velocity.FPS(2500)))
            calc._calc._init_trajectory(other)
        elif k == "fire":
            calc.fire(shot, pb.Distance.Foot(150.0), pb.Distance.Foot(50.0))
        elif k == "zero":
            calc.barrel_elevation_for_target(shot, pb.Distance.Foot(300.0))
        elif k == "danger":
            calc.fire(shot, pb.Distance.Foot(300.0), pb.Distance.Foot(30.0), extra_data=True).danger_space(
                pb.Distance.Foot(150.0), pb.Distance.Foot(1.5))
        elif k == "multibc":
            pb.DragModelMultiBC([pb.BCPoint(0.3, Mach=1.0), pb.BCPoint(0.35, Mach=2.0)], getattr(pb, case["table"]))
        used = True
        # the solver must use the drag of the shot it is given *now*
        calc._calc._init_trajectory(shot)
        fresh = pb.Calculator()
        fresh._calc._init_trajectory(shot)
        nodes = [(p.Mach, p.CD) for p in dm.drag_table]
        for m in case["probes"] + [nodes[0][0], nodes[len(nodes) // 2][0]]:
            a, b = calc._calc.drag_by_mach(m), fresh._calc.drag_by_mach(m)
            if a != b:
                r.bad("C09:history:stale-drag-on-reused-calculator",
                      f"after {op}: reused calculator uses drag {a!r} at Mach {m!r}, a fresh calculator {b!r}", op=op)
                break
        kk = calc._calc.drag_by_mach(nodes[0][0]) * dm.BC / nodes[0][1]
        if not abs(kk - KCONST) <= 1e-5 * KCONST:
            r.bad("C09:history:retardation-not-cd-k-over-bc", f"after {op}: drag x BC / Cd = {kk!r}, expected {KCONST!r} (BC now {dm.BC!r})", op=op)
        if r.violations:
            break
    for t in TABLES:
        if getattr(pb, t) != snapshot[t]:
            r.bad(f"C09:shipped-table-mutated:{t}", f"{t} changed after {case['ops']}")
    r.nontrivial = nt
    return r


def parts(tier):
    return [
        Part("shipped", kind="enum", cases=_shipped_cases, check=check_shipped, exhaustive=True),
        Part("custom", strategy=_custom(), check=check_custom, n={"quick": 8000, "thorough": 500000}),
        Part("history", strategy=_hist(), check=check_history, n={"quick": 480, "thorough": 8000}),
    ]


MANIFEST = {
    "technique": "exhaustive node/side/midpoint enumeration of the shipped tables + Hypothesis-generated custom tables against a set-valued Lagrange oracle; golden-table comparison; reused-vs-fresh calculator histories",
    "text": "Solver Cd (drag_by_mach x BC, normalised at the first node) equals the table at nodes and lies on an admissible neighbouring parabola / first-interval line elsewhere "
            "(1e-9); shipped tables positive and within 5% of linear; drag constant 0.076474 pi/1152 (1e-5) and exact 1/BC scaling; shipped tables equal the published copies and are unchanged by API use; "
            "a reused calculator uses the drag of the shot it is given now. Nodes/midpoints of shipped tables exhaustive; custom tables sampled.",
    "note": "observes the private _init_trajectory/drag_by_mach pair named by the property; pure-Python backend",
}
