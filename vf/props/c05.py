"""C05 - Each row's derived columns are the documented functions of its state."""
import math
from hypothesis import strategies as st

from .. import lib, ref, gen, build
from ..core import Part, Res

pb = lib.pb
D, A, V, T, P, W = pb.Distance, pb.Angular, pb.Velocity, pb.Temperature, pb.Pressure, pb.Weight

ID = "C05"
RULE = ("two generated shots fired one after the other on the same calculator (second = first with another atmosphere, "
        "twist or look angle): bullet weight/diameter/length given or missing, twist right/left/none, look -60..60 deg, "
        "lofted launches changing altitude by hundreds of feet, winds, cant; requests with and without extra data and "
        "time_step, tight limits so that some runs end in RangeError; every returned row (interpolated, time, event, "
        "terminal, appended) is checked; non-trivial = (look != 0 or altitude change > 100 ft or spin drift present) and "
        ">= 3 rows of >= 2 kinds; distinct = distinct case dicts; in 4 of 7 cases the calculator under test has a past (build.calculator prior: extra-data fire / "
        "subsonic fire / zeroing / RangeError for another fixed shot)")
ASSUMPTIONS = ["speed of sound reference: ISA gamma*R*T with the station temperature and the 6.5 K/km lapse; inside 30 ft (+ one step) "
               "of the station altitude the station's own value is equally admissible; 2e-5 relative (6-digit model constants, one-step lag of terminal rows)",
               "energy compared with the kinetic energy m v^2 / 2 within 1e-3 (any conventional g-constant passes)",
               "Miller / Litz formulas in vf/ref.py; temperature and pressure read from the Atmo object through the library's unit conversion (C06)"]


@st.composite
def _case(draw):
    R = draw(st.floats(200.0, 3000.0))
    spec = draw(gen.shot(look_max_deg=60.0, rel_deg=(-2.0, 30.0), range_ft=R, max_winds=2, powder=True))
    # second shot on the same calculator: same projectile, something else changed
    var = draw(st.sampled_from(["atmo", "atmo", "twist", "look", "same", "weight", "bullet", "mv"]))
    spec2 = dict(spec)
    if var == "atmo":
        spec2["atmo"] = draw(gen.atmo(("explicit", "icao")))
    elif var == "twist":
        spec2["twist"] = -spec.get("twist", 0.0) if spec.get("twist") else 9.0
    elif var == "look":
        spec2["look"] = draw(st.floats(-60.0, 60.0)) * gen.DEG
    elif var == "weight" and spec.get("wdl"):
        spec2["wdl"] = [spec["wdl"][0] * draw(st.floats(0.4, 2.5)), spec["wdl"][1], spec["wdl"][2]]
    elif var == "bullet" and spec.get("wdl"):
        spec2["wdl"] = [spec["wdl"][0] * draw(st.floats(0.5, 2.0)), spec["wdl"][1] * draw(st.floats(0.7, 1.4)), spec["wdl"][2] * draw(st.floats(0.7, 1.4))]
    elif var == "mv":
        spec2["mv"] = spec["mv"] * draw(st.floats(0.5, 1.3))
    # partial bullet data: twist given, but the length or the diameter is not (weight stays: its absence is not a "dimension")
    if spec.get("wdl") and draw(st.integers(0, 5)) == 0:
        w_, d_, l_ = spec["wdl"]
        spec["wdl"] = spec2["wdl"] = draw(st.sampled_from([[w_, d_, 0.0], [w_, 0.0, l_], [w_, 0.0, 0.0]]))
    if draw(st.integers(0, 11)) == 0:
        spec2["atmo"] = {"kind": "vacuum", "alt": spec["atmo"]["alt"], "t_c": draw(st.floats(-30.0, 40.0))}
        var = "vacuum"
    cfg = {}
    if draw(st.integers(0, 9)) == 0:
        # blown back: a slow, near-vertical launch into a head wind, no velocity floor - the bullet comes down behind the
        # firing point and the incomplete trajectory has rows at negative distances
        for s_ in (spec, spec2):
            s_["mv"] = min(s_["mv"], draw(st.floats(250.0, 700.0)))
            s_["look"] = 0.0
            s_["rel"] = draw(st.floats(84.0, 89.8)) * gen.DEG
            s_["cant"] = 0.0
            s_["winds"] = [[draw(st.floats(15.0, 90.0)), math.pi + draw(st.floats(-0.5, 0.5)), 1e8]]
        if draw(st.booleans()):
            # inclined sight line with rows behind the firing point (the sight-line geometry has no special case there)
            spec["look"] = draw(st.floats(-20.0, 20.0)) * gen.DEG
            spec2["look"] = draw(st.sampled_from([spec["look"], -spec["look"], 0.0]))
            for s_ in (spec, spec2):
                s_["rel"] = s_["rel"] - s_["look"]
        cfg = {"cMinimumVelocity": 0.0, "cMaximumDrop": -draw(st.floats(50.0, 3000.0))}
        return {"shots": [spec, spec2], "R": R, "step": R / draw(st.integers(2, 15)), "extra": draw(st.booleans()),
                "ts": draw(st.sampled_from([0.25, 1.0])), "config": cfg, "var": var, "blown_back": True}
    lim = draw(st.sampled_from(["none", "none", "drop", "velocity", "altitude"]))
    if lim == "drop":
        cfg["cMaximumDrop"] = -draw(st.floats(1.0, 200.0))
    elif lim == "velocity":
        cfg["cMinimumVelocity"] = spec["mv"] * draw(st.floats(0.5, 0.95))
    elif lim == "altitude":
        cfg["cMinimumAltitude"] = spec["atmo"]["alt"] - draw(st.floats(1.0, 100.0))
    return {"shots": [spec, spec2], "R": R, "step": R / draw(st.integers(2, 15)), "extra": draw(st.booleans()),
            "ts": draw(st.sampled_from([0.0, 0.0, 0.05, 0.3])), "config": cfg, "var": var, "prior": draw(gen.prior())}


def _sound_speed_fps(atmo_obj, alt_ft):
    t0 = (atmo_obj.temperature >> T.Kelvin)
    a0 = atmo_obj.altitude >> D.Foot
    t = max(t0 - ref.ISA_L * (alt_ft - a0) * 0.3048, 183.15)
    return math.sqrt(ref.ISA_GAMMA * ref.ISA_R * t) / 0.3048


def _check_rows(r, spec, sh, rows, trace, tag, calc_step):
    look = spec.get("look", 0.0)
    atmo_obj = sh.atmo
    a0 = atmo_obj.altitude >> D.Foot
    station_c = atmo_obj.mach >> V.FPS
    wgt = (sh.ammo.dm.weight >> W.Grain)
    mvel = sh.ammo.get_velocity_for_temp(atmo_obj.powder_temp) >> V.FPS
    dm = sh.ammo.dm
    sg = ref.miller_sg(wgt, dm.diameter >> D.Inch, dm.length >> D.Inch, sh.weapon.twist >> D.Inch, mvel,
                       atmo_obj.temperature >> T.Fahrenheit, atmo_obj.pressure >> P.InHg) if atmo_obj.pressure.raw_value else 0.0
    twist = sh.weapon.twist >> D.Inch
    for idx, row in enumerate(rows):
        x = row.distance >> D.Foot
        y = row.height >> D.Foot
        wv = row.windage >> D.Foot
        v = row.velocity >> V.FPS
        t = row.time
        where = f"{tag} row {idx} (x={x!r} ft, flag {int(row.flag)})"
        # Mach
        c_here = _sound_speed_fps(atmo_obj, a0 + y)
        cands = [v / c_here]
        if abs(y) < 30.0 + 2 * calc_step + 1.0:
            cands.append(v / station_c)
        # near the shortcut boundary an interpolated row mixes the station value and the local value: anything between them
        if not (min(cands) * (1 - 2e-5) <= row.mach <= max(cands) * (1 + 2e-5)) and v > 0:
            r.bad("C05:mach", f"{where}: mach {row.mach!r}, speed {v!r} fps / local speed of sound {c_here!r} fps = {cands[0]!r}")
            return
        # ... and consistent with the atmosphere model's own speed of sound at the row's altitude (the row may be
        # interpolated between two integration points, or lag one step: any altitude within one step's travel)
        if v > 0:
            dlt = 2 * calc_step + 0.05
            cs = [atmo_obj.get_density_factor_and_mach_for_altitude(a0 + y + d_)[1] for d_ in (-dlt, -dlt / 2, 0.0, dlt / 2, dlt)]
            lo_m, hi_m = v / max(cs), v / min(cs)
            if not (lo_m * (1 - 1e-9) <= row.mach <= hi_m * (1 + 1e-9)):
                r.bad("C05:mach:inconsistent-with-atmosphere-model", f"{where}: mach {row.mach!r}, but speed {v!r} fps over the atmosphere model's speed of sound "
                      f"at the row's altitude ({a0 + y!r} ft +- {dlt!r}) gives {lo_m!r}..{hi_m!r}")
                return
        # energy / ogw
        ke = (wgt / 7000.0 / 32.174) * v * v / 2.0
        e = row.energy >> pb.Energy.FootPound
        if abs(e - ke) > 1e-3 * ke + 1e-12:
            r.bad("C05:energy", f"{where}: energy {e!r} ft-lb, kinetic energy of {wgt!r} gr at {v!r} fps = {ke!r}")
            return
        og = wgt ** 2 * v ** 3 * 1.5e-12
        o = row.ogw >> W.Pound
        if abs(o - og) > 1e-9 * og + 1e-15:
            r.bad("C05:ogw", f"{where}: ogw {o!r} lb, weight^2 x speed^3 x 1.5e-12 = {og!r}")
            return
        # sight-line geometry
        td = (y - x * math.tan(look)) * math.cos(look)
        if abs((row.target_drop >> D.Foot) - td) > 1e-9 * max(1.0, abs(td)):
            r.bad("C05:target_drop", f"{where}: target_drop {row.target_drop >> D.Foot!r} ft, geometry gives {td!r} (look {math.degrees(look)!r} deg)")
            return
        ld = x / math.cos(look)
        if abs((row.look_distance >> D.Foot) - ld) > 1e-9 * max(1.0, abs(ld)):
            r.bad("C05:look_distance", f"{where}: look_distance {row.look_distance >> D.Foot!r} ft, x / cos(look) = {ld!r}")
            return
        da = (math.atan(y / x) - look) if x != 0 else 0.0
        wa = math.atan(wv / x) if x != 0 else 0.0
        if abs(row.drop_adj.raw_value - da) > 1e-9:
            key = "C05:drop_adj:muzzle-not-zero" if x == 0 else "C05:drop_adj"
            r.bad(key, f"{where}: drop_adj {row.drop_adj.raw_value!r} rad, atan(y/x) - look = {da!r}")
            return
        if abs(row.windage_adj.raw_value - wa) > 1e-9:
            key = "C05:windage_adj:muzzle-not-zero" if x == 0 else "C05:windage_adj"
            r.bad(key, f"{where}: windage_adj {row.windage_adj.raw_value!r} rad, atan(windage/x) = {wa!r}")
            return
    return sg, twist


def check(case):
    r = Res()
    h = 0.5
    cfg = dict(case["config"])
    calc = build.calculator(cfg, prior=case.get("prior"))
    kinds = set()
    nt = False
    # history: both shots are fired back to back on the same calculator first (per-shot state must be re-derived);
    # the no-twist references for the spin-drift differential come from a separate calculator afterwards
    fired = []
    for spec in case["shots"]:
        sh = build.shot(spec)
        fired.append((sh,) + build.fire(calc, sh, case["R"], case["step"], extra=case["extra"], time_step=case["ts"]))
    calc_ref = build.calculator(cfg)
    for k, spec in enumerate(case["shots"]):
        tag = f"shot {k + 1}"
        sh, rows, err = fired[k]
        if err is not None:
            r.label("range-error:" + err.reason.split()[1])
            kinds.add("terminal")
        out = _check_rows(r, spec, sh, rows, None, tag, h / 2)
        if r.violations:
            break
        sg, twist = out
        for row in rows:
            fl = int(row.flag)
            kinds.add("event" if fl & 7 else "range/time")
        # spin drift: differential against the same shot without twist, on the same calculator
        sh0 = build.shot(dict(spec, twist=0.0))
        rows0, err0 = build.fire(calc_ref, sh0, case["R"], case["step"], extra=case["extra"], time_step=case["ts"])
        if len(rows0) != len(rows):
            r.bad("C05:spin-drift:twist-changes-rows", f"{tag}: {len(rows)} rows with twist, {len(rows0)} without")
            break
        has_sd = False
        for i, (a, b) in enumerate(zip(rows, rows0)):
            dw = (a.windage >> D.Foot) - (b.windage >> D.Foot)
            want = ref.litz_spin_drift_ft(sg, twist, a.time)
            if want != 0:
                has_sd = True
            if abs(dw - want) > 1e-9 * abs(want) + 1e-11 * max(1.0, abs(a.windage >> D.Foot)):
                dmm = sh.ammo.dm
                absent = not (twist and (dmm.length >> D.Inch) and (dmm.diameter >> D.Inch))
                r.bad("C05:spin-drift:" + ("present-without-twist-or-dimensions" if absent else "formula"),
                      f"{tag} row {i} (t={a.time!r} s): windage differs from the no-twist shot by {dw!r} ft, Litz/Miller gives {want!r} ft "
                      f"(Sg {sg!r}, twist {twist!r} in)")
                break
            # everything but windage and its adjustment is untouched by twist
            ra, rb = build.row_raw(a), build.row_raw(b)
            for j, name in enumerate(build.NUM_COLS):
                if name not in ("windage", "windage_adj") and ra[j] != rb[j]:
                    r.bad("C05:spin-drift:twist-changes-other-column", f"{tag} row {i}: column {name} {ra[j]!r} vs {rb[j]!r} without twist")
                    break
            if r.violations:
                break
        if r.violations:
            break
        if has_sd:
            r.label("spin-drift")
        # angle and speed: difference quotients on a step trace of the no-twist shot
        tr, terr = build.trace(build.calculator(cfg), build.shot(dict(spec, twist=0.0)), min(case["R"], 600.0))
        n = len(tr) - (1 if terr is not None else 0)
        # (the velocity at an integration point points between the chord that arrives there and the chord that leaves it -
        # whichever of the two the integrator's update makes exact; one more step's rotation is allowed on either side)
        def _wrap(a):
            return (a + math.pi) % (2 * math.pi) - math.pi
        for i in range(1, n - 1):
            p, q, nx = tr[i - 1], tr[i], tr[i + 1]
            dt, dt2 = q.t - p.t, nx.t - q.t
            if dt <= 0 or dt2 <= 0:
                continue
            dx, dy, dz = q.x - p.x, q.y - p.y, q.w - p.w
            ex, ey = nx.x - q.x, nx.y - q.y
            ang_in, ang_out = math.atan2(dy, dx), math.atan2(ey, ex)
            d_out = _wrap(ang_out - ang_in)
            d = _wrap(q.angle - ang_in)
            if not (min(0.0, d_out) - abs(d_out) - 1e-9 <= d <= max(0.0, d_out) + abs(d_out) + 1e-9):
                r.bad("C05:angle", f"{tag} trace point {i} (x={q.x!r} ft): angle column {q.angle!r} rad, direction of motion into the point "
                      f"{ang_in!r}, out of it {ang_out!r}")
                break
            spd = math.sqrt(dx * dx + dy * dy + dz * dz) / dt
            lo_v, hi_v = min(p.v, q.v), max(p.v, q.v)
            if not (lo_v - (hi_v - lo_v) - 1e-7 * spd - 1e-9 <= spd <= hi_v + (hi_v - lo_v) + 1e-7 * spd + 1e-9):
                r.bad("C05:speed-vs-displacement", f"{tag} trace point {i}: speed column {p.v!r} -> {q.v!r} fps, |displacement|/dt = {spd!r}")
                break
        if r.violations:
            break
        # interpolated rows: angle between the neighbouring integration points
        j = 0
        for row in rows0:
            if row.time > tr[n - 1].t or not (int(row.flag) & 8):
                continue
            while j + 1 < n and tr[j + 1].t < row.time:
                j += 1
            if j + 1 < n:
                lo, hi = sorted((tr[j].angle, tr[j + 1].angle))
                if not lo - 1e-9 <= row.angle.raw_value <= hi + 1e-9:
                    r.bad("C05:angle:interpolated-row-outside-neighbours", f"{tag}: row at {row.distance >> D.Foot!r} ft has angle "
                          f"{row.angle.raw_value!r}, neighbouring integration points {lo!r}..{hi!r}")
                    break
        if r.violations:
            break
        if any(row.distance.raw_value < 0 for row in rows):
            r.label("rows-behind-the-firing-point")
        if spec.get("wdl") and not all(spec["wdl"]):
            r.label("partial-dimensions")
        ys = [row.height >> D.Foot for row in rows]
        if (spec.get("look") or (max(ys) - min(ys) > 100.0) or has_sd) and len(rows) >= 3:
            nt = True
        if max(ys) - min(ys) > 100.0:
            r.label("altitude-change>100ft")
        if spec.get("look"):
            r.label("look!=0")
    r.nontrivial = nt and len(kinds) >= 2
    r.label("second-shot:" + case["var"])
    return r


def parts(tier):
    return [Part("rows", strategy=_case(), check=check, n={"quick": 1600, "thorough": 30000})]


MANIFEST = {
    "technique": "Hypothesis-generated shot pairs on one calculator; independent formulas evaluated on every returned row; twist/no-twist differential for spin drift; difference quotients on a step trace for angle and speed",
    "text": "Mach = speed / local speed of sound (2e-5), energy = kinetic energy (1e-3), ogw formula (1e-9), sight-line geometry of target_drop / look_distance / drop_adj / windage_adj (1e-9, zero at the muzzle), "
            "angle = direction of motion on the step trace (between the arriving and the leaving chord, one step's rotation of slack), windage - no-twist windage = Litz/Miller spin drift (1e-9), absent without twist or dimensions; all row kinds incl. terminal rows; second shot on the same calculator. Exploration level.",
    "note": "speed-of-sound oracle is set-valued inside the documented 30-ft shortcut; Miller inputs read from the Atmo object",
}
