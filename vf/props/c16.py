"""C16 - Danger space is the contiguous stretch of trajectory within the target."""
import math
from hypothesis import strategies as st

from .. import lib, ref, gen, build
from ..core import Part, Res

pb = lib.pb
Unit = pb.Unit
D = pb.Distance

ID = "C16"
RULE = ("trajectories computed with extra data from generated shots (flat and arcing, look -30..30 deg, zeroed at a generated "
        "distance so that queried ranges fall on the rising and the falling branch, record steps 3..300 ft); 12 queries per "
        "trajectory: target ranges from 0 to beyond the last row (in any distance unit or bare), target heights 0.01 in..30 ft; "
        "non-trivial = a query whose target row is on the rising branch or look != 0, with both bounds interior rows; "
        "distinct = distinct case dicts; one case in six is a slow steep lob into a head wind recorded with time-step rows (rows not in "
        "order of distance, ranges within the furthest row)")
ASSUMPTIONS = ["drop = target_drop column; the target height is the one the result reports (the bare-number slot ambiguity is C07's)",
               "monotonicity compares row indices of begin/end for increasing heights at the same range"]

DIST = ref.UNITS_BY_DIM["distance"]
DELIBERATE = (ArithmeticError, ValueError, LookupError)   # "raises an error": any deliberate error type


@st.composite
def _case(draw):
    R = draw(st.floats(300.0, 3000.0))
    spec = draw(gen.shot(look_max_deg=30.0, rel_deg=(0.0, 0.0), range_ft=R, max_winds=1, cant=False,
                         mv_classes=("subsonic", "transonic", "rifle")))
    zero_ft = draw(st.floats(60.0, R))
    n = draw(st.integers(8, 100))
    qs = []
    for _ in range(6):
        at = draw(st.one_of(st.floats(0.0, R), st.floats(0.0, zero_ft), st.sampled_from([0.0, R, R / 2, zero_ft / 2])))
        hs = sorted(math.exp(draw(st.floats(math.log(0.01), math.log(360.0)))) for _ in range(2))
        u = draw(st.one_of(st.none(), st.sampled_from(DIST)))
        qs.append({"at_ft": at, "h_in": hs, "unit": u, "look": draw(st.one_of(st.none(), st.floats(-0.5, 0.5))),
                   # history on the same result object: an earlier look-up of the same *number* in another unit
                   "decoy_unit": draw(st.one_of(st.none(), st.sampled_from(DIST)))})
    beyond = R * (1 + draw(st.floats(0.01, 1.0))) + 10.0
    lob = None
    if draw(st.integers(0, 5)) == 0:
        # arcing trajectory of a slow, steeply lobbed projectile in a head wind, recorded with time-step rows: near and after the
        # apex the wind carries it back, so the rows are not in order of distance (ranges are then taken within the furthest row)
        spec.update(mv=draw(st.floats(200.0, 800.0)), look=0.0, rel=draw(st.floats(78.0, 89.5)) * gen.DEG, cant=0.0,
                    winds=[[draw(st.floats(20.0, 90.0)), math.pi + draw(st.floats(-0.3, 0.3)), 1e8]])
        lob = {"cMinimumVelocity": 0.0, "cMaximumDrop": -draw(st.floats(5.0, 400.0))}
        R = draw(st.floats(30.0, 600.0))
        qs = [dict(q, at_ft=q["at_ft"] / 3000.0 * R, look=None) for q in qs]
        return {"shot": spec, "R": R, "zero_ft": zero_ft, "step": R / draw(st.integers(2, 10)), "queries": qs, "beyond_ft": R * 4 + 3000.0,
                "extra_time": draw(st.sampled_from([0.25, 0.5, 1.0])), "lob": lob,
                "pref": draw(st.sampled_from([None, None, "Meter", "Foot"]))}
    return {"shot": spec, "R": R, "zero_ft": zero_ft, "step": R / n, "queries": qs, "beyond_ft": beyond,
            "extra_time": draw(st.sampled_from([0.0, 0.0, 0.1])),
            # the request itself in a generated unit (metric steps accumulate a few ulp), and a query at exactly that range
            "fire_unit": draw(st.sampled_from(["Foot", "Meter", "Meter", "Yard", "Centimeter", "Kilometer"])), "n": n,
            # the preferred distance unit in force while the queries are made (bare numbers are read in it)
            "pref": draw(st.sampled_from([None, None, "Meter", "Foot", "Kilometer", "Inch"]))}


def _q(ft, unit, pref=None):
    """a range of `ft` feet given in `unit`, or as a bare number (preferred distance unit, yard at defaults)"""
    if unit is None:
        return ref.convert(ft, "Foot", pref or "Yard")
    return Unit[unit](ref.convert(ft, "Foot", unit))


def check(case):
    r = Res()
    spec = case["shot"]
    calc = build.calculator(case.get("lob"))
    sh = build.shot(spec)
    if case.get("lob"):
        r.label("lobbed-into-head-wind")
    else:
        try:
            calc.set_weapon_zero(sh, D.Foot(case["zero_ft"]))
        except (pb.ZeroFindingError, pb.RangeError):
            r.label("zero-failed")
    fu = case.get("fire_unit", "Foot")
    rng_val = round(ref.convert(case["R"], "Foot", fu), 1 if fu in ("Meter", "Yard", "Foot") else 4)
    n_steps = case.get("n", 20)
    try:
        if fu == "Foot" and "fire_unit" not in case:
            hit = calc.fire(sh, D.Foot(case["R"]), D.Foot(case["step"]), extra_data=True, time_step=case["extra_time"])
        else:
            hit = calc.fire(sh, Unit[fu](rng_val), Unit[fu](rng_val / n_steps), extra_data=True, time_step=case["extra_time"])
    except pb.RangeError as e:
        hit = pb.HitResult(sh, e.incomplete_trajectory, True)
        r.label("range-error")
    rows = hit.trajectory
    n = len(rows)
    if n < 3:
        return r
    pref = case.get("pref")
    if pref:
        pb.PreferredUnits.distance = Unit[pref]
        r.label("preferred-distance-changed")
    idx = {id(row): i for i, row in enumerate(rows)}
    raws = None

    def _index(row):
        """index of a returned row in the trajectory: the row object itself, or (were the result to hand out copies) the
        first row with the same content"""
        nonlocal raws
        i = idx.get(id(row))
        if i is None:
            raws = raws or build.rows_raw(rows)
            rr = build.row_raw(row)
            i = next((k for k, x in enumerate(raws) if x == rr), None)
        return i
    drops = [row.target_drop.raw_value for row in rows]
    apex = max(range(n), key=lambda i: drops[i])
    nt = False
    for q in case["queries"]:
        far = max(row.distance.raw_value for row in rows) if case.get("lob") else rows[-1].distance.raw_value
        at_ft = min(q["at_ft"], far / 12.0 * (1 - 1e-12))
        prev = None
        for h_in in q["h_in"]:
            kw = {}
            if q["look"] is not None:
                kw["look_angle"] = pb.Angular.Radian(q["look"])
            if q.get("decoy_unit"):
                arg = _q(at_ft, q["unit"], pref)
                number = arg if q["unit"] is None else arg.unit_value
                hit.index_at_distance(Unit[q["decoy_unit"]](number))
                try:
                    hit.get_at_distance(Unit[q["decoy_unit"]](number))
                except DELIBERATE:
                    pass
            try:
                ds = hit.danger_space(_q(at_ft, q["unit"], pref), D.Inch(h_in), **kw)
            except DELIBERATE as exc:
                r.bad("C16:raises-for-a-range-within-the-trajectory", f"query {q}: {type(exc).__name__}: {exc} although the trajectory has a row at "
                      f"{far / 12.0!r} ft, beyond the requested {at_ft!r} ft")
                break
            half = ds.target_height.raw_value / 2.0
            if abs(ds.target_height.raw_value - h_in) > 1e-9 * h_in:
                r.bad("C16:target-height-misread", f"explicit target height {h_in!r} in reported as {ds.target_height.raw_value!r} in")
            ia, ib, ie = _index(ds.at_range), _index(ds.begin), _index(ds.end)
            if ia is None or ib is None or ie is None:
                r.bad("C16:bound-not-a-trajectory-row", f"query {q}: a returned row is not a row of the trajectory")
                break
            # the target row: first row at or beyond the requested range (as the library read the request)
            # (a bare number is a number of the preferred distance unit in force now - constructed explicitly here)
            req_raw = Unit[pref or "Yard"](_q(at_ft, None, pref)).raw_value if q["unit"] is None else _q(at_ft, q["unit"]).raw_value
            exp_a = next((i for i in range(n) if rows[i].distance.raw_value >= req_raw), -1)
            if ia != exp_a:
                r.bad("C16:target-row", f"query {q}: target row index {ia}, first row at or beyond the range is {exp_a}")
                break
            if not (ib <= ia <= ie):
                r.bad("C16:bounds-do-not-bracket-target", f"query {q}: begin {ib}, target {ia}, end {ie}")
                break
            c = drops[ia]
            bad = [i for i in range(ib + 1, ie) if not abs(drops[i] - c) < half]
            if bad:
                i = bad[0]
                # mechanism predicate of the recorded root cause: the offending row lies on the side the scan does not test
                one_sided = all((i < ia and drops[i] - c <= -half) or (i > ia and drops[i] - c >= half) for i in bad)
                r.bad("C16:interior-row-outside-target" + (":one-sided-comparison" if one_sided else ""),
                      f"target at {rows[ia].distance.raw_value / 12.0!r} ft (drop {c!r} in), height {2 * half!r} in: row {i} at "
                      f"{rows[i].distance.raw_value / 12.0!r} ft between the bounds ({ib}..{ie}) has drop {drops[i]!r} in, {abs(drops[i] - c)!r} in away",
                      query=q)
                break
            if ib != 0 and not abs(drops[ib] - c) >= half:
                r.bad("C16:begin-bound-inside-target", f"query {q}: begin row {ib} is neither the first row nor {half!r} in away from the target drop")
                break
            if ie != n - 1 and not abs(drops[ie] - c) >= half:
                r.bad("C16:end-bound-inside-target", f"query {q}: end row {ie} is neither the last row nor {half!r} in away from the target drop")
                break
            if prev is not None and not (ib <= prev[0] and ie >= prev[1]):
                r.bad("C16:taller-target-shrinks-danger-space", f"query {q}: height {prev[2]!r} in gives rows {prev[0]}..{prev[1]}, "
                      f"height {h_in!r} in gives {ib}..{ie}")
                break
            prev = (ib, ie, h_in)
            if (ia < apex or spec.get("look")) and 0 < ib and ie < n - 1:
                nt = True
            r.label("target:rising" if ia < apex else "target:falling")
        if r.violations:
            break
    # at exactly the fired range, in the request's own unit: the first row at or beyond it, or an error if the last row
    # falls short of it (by however little)
    if "fire_unit" in case and not r.violations:
        req = Unit[fu](rng_val)
        exp_a = next((i for i in range(n) if rows[i].distance.raw_value >= req.raw_value), -1)
        try:
            ds = hit.danger_space(Unit[fu](rng_val), D.Inch(20.0))
            ia, ib, ie = _index(ds.at_range), _index(ds.begin), _index(ds.end)
            if exp_a < 0:
                r.bad("C16:beyond-trajectory-accepted", f"request {rng_val!r} {fu}: the last row is at {rows[-1].distance.raw_value!r} in < {req.raw_value!r} in, "
                      f"yet a danger space was returned (target row {ia}, begin {ib}, end {ie})")
            elif ia != exp_a or ib is None or ie is None or not (ib <= ia <= ie):
                r.bad("C16:bounds-do-not-bracket-target", f"request at the fired range {rng_val!r} {fu}: target row {ia} (expected {exp_a}), begin {ib}, end {ie}")
            r.label("at-fired-range:returned")
        except DELIBERATE:
            if exp_a >= 0:
                r.bad("C16:target-row", f"request at the fired range {rng_val!r} {fu} raised although row {exp_a} reaches it")
            r.label("at-fired-range:raised")
    # beyond the computed trajectory
    far_ft = max(row.distance.raw_value for row in rows) / 12.0
    if any(rows[i + 1].distance.raw_value < rows[i].distance.raw_value for i in range(n - 1)):
        r.label("rows-not-in-order-of-distance")
    for u in (None, "Meter"):
        try:
            hit.index_at_distance(D.Foot(max(case["beyond_ft"], far_ft + 10.0) / (3.0 if u is None else 0.3048)))
            hit.danger_space(_q(max(case["beyond_ft"], far_ft + 10.0), u, pref), D.Inch(10.0))
        except DELIBERATE:
            continue
        r.bad("C16:beyond-trajectory-accepted", f"asking {case['beyond_ft']!r} ft beyond a trajectory ending at {rows[-1].distance.raw_value / 12.0!r} ft returned a result")
    r.nontrivial = nt
    return r


def parts(tier):
    return [Part("queries", strategy=_case(), check=check, n={"quick": 960, "thorough": 80000})]


MANIFEST = {
    "technique": "Hypothesis-generated trajectories (rising/falling branches, inclined sight lines) and queries; validity predicate over the returned rows against HitResult.trajectory; monotonicity in target height",
    "text": "begin/target/end are trajectory rows bracketing the request; every row strictly between is within half the target height of the target row's drop (above or below); each bound is the first/last row or at least half a height away; "
            "taller target never shrinks the interval; beyond the trajectory raises. Exploration level.",
    "note": "target height as reported by the result; ranges in all distance units and bare",
}
