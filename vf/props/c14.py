"""C14 - Multi-BC drag models realise the interpolated BC and leave inputs intact."""
import copy
import math
from hypothesis import strategies as st

from .. import lib, ref
from ..core import Part, Res

pb = lib.pb
Unit = pb.Unit

ID = "C14"
RULE = ("1..6 (BC, Mach|velocity) points, BC 0.05..1.5, Mach 0.3..4 (>= 1e-3 apart) given by Mach or by velocity in any "
        "of the 5 velocity units, any order; any of the nine shipped tables given as the dict list, as the data-point "
        "list of an existing DragModel or of an existing multi-BC model; with/without weight+diameter; built once or "
        "twice from the same input objects, optionally with a second model sharing the inputs; non-trivial = >= 2 "
        "points not in ascending order, or table passed as data points, or built twice; distinct = distinct case dicts; history: the caller's own dict list edited in place between two builds "
        "(same list object vs equal fresh list)")
ASSUMPTIONS = ["reference: clamped piecewise-linear interpolation in Mach (vf/ref.py)",
               "velocity-given points: Mach abscissae may be scaled by any factor in [1-2e-5, 1+2e-5] (ISA sea-level "
               "speed of sound 340.294 m/s vs the library's 340.292); Mach-given points: 1e-9 relative",
               "the order of the caller's bc_points list is not asserted (the statement names the table and the data points)"]

TABLES = ["TableG1", "TableG7", "TableG2", "TableG5", "TableG6", "TableG8", "TableGI", "TableGS", "TableRA4"]
VEL = ref.UNITS_BY_DIM["velocity"]
A0 = 340.294  # ISA sea-level speed of sound, m/s
EPS = 2e-5


@st.composite
def _case(draw):
    n = draw(st.one_of(st.just(1), st.integers(1, 6)))
    machs = []
    while len(machs) < n:
        m = draw(st.one_of(st.floats(0.3, 4.0), st.sampled_from([0.5, 0.9, 1.0, 1.2, 2.0, 2.5, 3.0])))
        if all(abs(m - x) >= 1e-3 for x in machs):
            machs.append(m)
    byv = draw(st.booleans())
    pts = []
    for m in machs:
        bc = draw(st.floats(0.05, 1.5))
        if byv:
            u = draw(st.sampled_from(VEL))
            pts.append({"bc": bc, "v": ref.from_si(m * A0, u), "unit": u, "mach": m})
        else:
            pts.append({"bc": bc, "mach": m})
    order = draw(st.sampled_from(["asc", "desc", "given"]))
    if order == "asc":
        pts.sort(key=lambda p: p["mach"])
    elif order == "desc":
        pts.sort(key=lambda p: -p["mach"])
    wd = None
    if draw(st.booleans()):
        wd = [draw(st.floats(20.0, 800.0)), draw(st.floats(0.17, 0.6)), draw(st.floats(0.0, 2.5))]
        part = draw(st.sampled_from(["both", "both", "both", "weight-only", "diameter-only"]))
        if part == "weight-only":
            wd[1] = 0.0
        elif part == "diameter-only":
            wd[0] = 0.0
    return {"table": draw(st.sampled_from(TABLES)),
            "form": draw(st.sampled_from(["dicts", "dicts", "model-points", "mbc-points"])),
            "points": pts, "wd": wd, "twice": draw(st.booleans()), "sharer": draw(st.booleans()),
            "pref_velocity": draw(st.sampled_from(VEL)),
            # velocities given as bare numbers of the preferred velocity unit in force (instead of explicit quantities)
            "bare_v": byv and draw(st.integers(0, 2)) == 0,
            # history: the caller's own table (list of dicts) is edited in place between two builds from the same list object
            "edit_then_rebuild": draw(st.one_of(st.none(), st.tuples(st.integers(1, 7), st.floats(0.5, 1.6))))}


def _bcpoints(case):
    out = []
    for p in case["points"]:
        if "v" in p and case.get("bare_v"):
            out.append(pb.BCPoint(p["bc"], V=ref.convert(p["v"], p["unit"], case["pref_velocity"])))
        elif "v" in p:
            out.append(pb.BCPoint(p["bc"], V=Unit[p["unit"]](p["v"])))
        else:
            out.append(pb.BCPoint(p["bc"], Mach=p["mach"]))
    return out


def _snap_points(bps):
    return sorted((b.BC, b.Mach, b.V.raw_value, int(b.V.units)) for b in bps)


def _table_snapshot(tbl):
    if tbl and isinstance(tbl[0], dict):
        return [(d["Mach"], d["CD"]) for d in tbl]
    return [(p.Mach, p.CD) for p in tbl]


def _build(case, bps, table):
    if case["wd"]:
        w, d, l = case["wd"]
        kw = {k: v for k, v, given in (("weight", pb.Weight.Grain(w), w), ("diameter", pb.Distance.Inch(d), d),
                                       ("length", pb.Distance.Inch(l), l)) if given}   # a zero entry = argument not given
        return pb.DragModelMultiBC(bps, table, **kw)
    return pb.DragModelMultiBC(bps, table)


def check(case):
    r = Res()
    # explicit-unit inputs: the preferred velocity unit in force must not matter (it is reset after the case)
    pb.PreferredUnits.velocity = Unit[case.get("pref_velocity", "FPS")]
    std = getattr(pb, case["table"])
    std_snapshot = copy.deepcopy(std)
    r.label("form:" + case["form"], f"points:{len(case['points'])}", "by-velocity" if "v" in case["points"][0] else "by-mach",
            *(["bare-velocities"] if case.get("bare_v") else []))
    source_model = None
    if case["form"] == "dicts":
        table = std
    elif case["form"] == "model-points":
        source_model = pb.DragModel(0.3, std)
        table = source_model.drag_table
    else:
        source_model = pb.DragModelMultiBC([pb.BCPoint(0.4, Mach=1.0)], std)
        table = source_model.drag_table
    base_cd = [(p["Mach"], p["CD"]) for p in std] if case["form"] != "mbc-points" else None
    src_before = _table_snapshot(table)
    sharer = None
    if case["sharer"]:
        sharer = pb.DragModel(0.25, table)
        sharer_before = _table_snapshot(sharer.drag_table)
    bps = _bcpoints(case)
    bp_before = _snap_points(bps)

    model = _build(case, bps, table)

    # ---- effective BC at every node of the table -------------------------------------------------
    pts = sorted(case["points"], key=lambda p: p["mach"])
    byv = "v" in pts[0]
    if byv:
        xs = [ref.to_si(p["v"], p["unit"]) / A0 for p in pts]
    else:
        xs = [p["mach"] for p in pts]
    ys = [p["bc"] for p in pts]
    if len(src_before) != len(model.drag_table):
        r.bad("C14:table-length", f"model table has {len(model.drag_table)} nodes, input {len(src_before)}")
    else:
        worst = 0.0
        for (m_in, cd_in), dp in zip(src_before, model.drag_table):
            if dp.Mach != m_in:
                r.bad("C14:table-mach-changed", f"node Mach {m_in!r} became {dp.Mach!r}")
                break
            eff = cd_in * model.BC / dp.CD
            if byv:
                lo_x, hi_x = m_in / (1 + EPS), m_in / (1 - EPS)
                cands = [ref.pw_linear(lo_x, xs, ys), ref.pw_linear(hi_x, xs, ys)] + \
                        [y for x, y in zip(xs, ys) if lo_x <= x <= hi_x]
                lo, hi = min(cands), max(cands)
                ok = lo * (1 - 1e-9) <= eff <= hi * (1 + 1e-9)
                want = ref.pw_linear(m_in, xs, ys)
            else:
                want = ref.pw_linear(m_in, xs, ys)
                ok = abs(eff - want) <= 1e-9 * want
            worst = max(worst, abs(eff - want) / want)
            if not ok:
                where = "below-first" if m_in <= xs[0] else "above-last" if m_in >= xs[-1] else "interior"
                r.bad(f"C14:effective-bc:{where}:{'by-velocity' if byv else 'by-mach'}",
                      f"{case['table']} node Mach {m_in!r}: effective BC {eff!r}, interpolation of the given points gives {want!r}",
                      points=list(zip(xs, ys)))
                break
        r.target = worst
    if case["wd"]:
        r.label("weight/diameter:" + ("both" if case["wd"][0] and case["wd"][1] else "one-only"))
    # single point == plain single-BC model
    if len(pts) == 1 and not byv and case["form"] != "mbc-points":
        plain = pb.DragModel(pts[0]["bc"], std)
        for dp, pp in zip(model.drag_table, plain.drag_table):
            a, b = dp.CD / model.BC, pp.CD / plain.BC
            if abs(a - b) > 1e-9 * b:
                r.bad("C14:single-point-differs-from-plain-model",
                      f"Mach {dp.Mach!r}: CD/BC = {a!r} vs plain single-BC model {b!r}")
                break

    # ---- inputs intact ------------------------------------------------------------------------------
    def inputs_intact(stage):
        if std != std_snapshot:
            r.bad("C14:mutates-input:shipped-table-dicts", f"{case['table']} changed after {stage}")
        now = _table_snapshot(table)
        if now != src_before:
            kind = "dict-list" if case["form"] == "dicts" else "drag_table-datapoints"
            i = next(i for i, (a, b) in enumerate(zip(now, src_before)) if a != b)
            r.bad(f"C14:mutates-input:{kind}", f"after {stage}: input table entry {i} changed {src_before[i]} -> {now[i]}")
        if _snap_points(bps) != bp_before:
            r.bad("C14:mutates-input:bc-points", f"after {stage}: a BCPoint's (BC, Mach, V) changed")
        if sharer is not None and _table_snapshot(sharer.drag_table) != sharer_before:
            r.bad("C14:other-model-changed", f"after {stage}: a model sharing the input table changed")

    inputs_intact("building")
    if case["twice"]:
        model2 = _build(case, bps, table)
        if model2.BC != model.BC or _table_snapshot(model2.drag_table) != _table_snapshot(model.drag_table):
            r.bad("C14:second-build-differs", "building twice from the same inputs gives different models")
        inputs_intact("building twice")
    if case.get("edit_then_rebuild") and not r.violations:
        every, factor = case["edit_then_rebuild"]
        own = copy.deepcopy(std)
        _build(case, bps, own)
        pb.DragModel(0.3, own)
        for j, d in enumerate(own):
            if j % every == 0:
                d["CD"] = d["CD"] * factor
        for what, mk in (("multi-BC", lambda t: _build(case, bps, t)), ("single-BC", lambda t: pb.DragModel(0.3, t))):
            same_obj, fresh_obj = mk(own), mk(copy.deepcopy(own))
            if same_obj.BC != fresh_obj.BC or _table_snapshot(same_obj.drag_table) != _table_snapshot(fresh_obj.drag_table):
                r.bad("C14:history:rebuild-after-in-place-table-edit", f"{what} model rebuilt from the caller's own table after every {every}. entry was "
                      f"scaled by {factor!r} in place differs from the model built from an equal, fresh list")
                break
        r.label("rebuilt-after-table-edit")
    given = [p["mach"] for p in case["points"]]
    r.nontrivial = (len(given) >= 2 and given != sorted(given)) or case["form"] != "dicts" or case["twice"]
    return r


def parts(tier):
    return [Part("build", strategy=_case(), check=check, n={"quick": 6000, "thorough": 600000})]


MANIFEST = {
    "technique": "Hypothesis-generated BC point lists / table forms; reference piecewise-linear interpolation; before/after snapshots of every input",
    "text": "Effective BC (standard CD x model BC / model CD) at every node of the table equals the clamped piecewise-linear interpolation of the given points "
            "(1e-9 for Mach-given; abscissa band +-2e-5 for velocity-given); single point == plain model; shipped table dicts, data points passed in, BCPoints and "
            "models sharing those inputs are unchanged by building once or twice. Exploration level over generated inputs.",
    "note": "order of the caller's bc_points list not asserted; ISA speed of sound 340.294 m/s for velocity-given points",
}
