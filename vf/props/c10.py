"""C10 - Results depend only on the arguments: deterministic, isolated, non-mutating."""
import copy
import math
import os
import pickle
import struct
from hypothesis import strategies as st

from .. import lib, gen, build, sched
from ..core import Part, Res

pb = lib.pb
D, A, V = pb.Distance, pb.Angular, pb.Velocity

ID = "C10"
RULE = ("(a) histories from a RuleBasedStateMachine over pools of <= 4 shots (incl. a class at the edges of the atmosphere model) and <= 3 calculators: new shot / calculator, zero, "
        "fire (plain/extra/time step), danger space, elevation query, unreachable fire (raises), construction of unrelated "
        "objects sharing tables/points, repeat, and in-place edits of pooled objects (BC, drag-table entry, wind, humidity, "
        "muzzle velocity, look angle) with the model updated accordingly; after every rule: clean-room differential (fresh "
        "calculator + shot rebuilt from the model; and the same in a process forked before the history's first operation), deep snapshot of every pooled argument vs the model, stability of every "
        "earlier result; (b) 2..4 zero+fire jobs under a harness-owned line-granularity scheduler driven by a generated "
        "schedule; (c) the same jobs in free-running threads with a 1 us switch interval; non-trivial = (a) a history with >= 2 "
        "operations on one calculator for different shots or an operation after a raising one, (b) >= 20 switches between "
        ">= 2 threads, (c) any; distinct = distinct executed histories / schedules")
ASSUMPTIONS = ["display units of quantities are excluded from snapshots (C13 allows them to change)",
               "engine (b) explores generated schedules at line granularity, not all interleavings; a race inside one line is only reachable by (c), whose replay is probabilistic",
               "pooled shots use single-BC models so that in-place edits have an unambiguous model"]

SHIP = gen.TABLES


def _shot_spec():
    return gen.shot(custom=True, look_max_deg=40.0, rel_deg=(-1.0, 5.0), cant=True, max_winds=3, range_ft=600.0, mbc=False,
                    mv_classes=("subsonic", "transonic", "rifle"), atmo_kinds=("icao", "explicit"), max_alt=9000.0)


@st.composite
def _extreme_spec(draw):
    """shots that reach the edges of the atmosphere model (temperature floor, tropopause, far below / above the station):
    state leaked into the model's class-level constants shows only there"""
    spec = draw(gen.shot(custom=False, look_max_deg=0.0, rel_deg=(0.0, 5.0), cant=False, max_winds=1, range_ft=600.0, mbc=False,
                         mv_classes=("rifle",), atmo_kinds=("icao",), max_alt=9000.0))
    kind = draw(st.sampled_from(["cold", "cold", "high", "hot-low"]))
    if kind == "cold":
        spec["atmo"] = {"kind": "explicit", "alt": draw(st.floats(0.0, 12000.0)), "p_hpa": draw(st.floats(600.0, 1050.0)),
                        "t_c": draw(st.floats(-89.9, -86.0)), "hum": 0.0}
    elif kind == "high":
        spec["atmo"] = {"kind": "icao", "alt": draw(st.floats(34000.0, 36089.0))}
    else:
        spec["atmo"] = {"kind": "explicit", "alt": draw(st.floats(-1400.0, 0.0)), "p_hpa": draw(st.floats(1000.0, 1100.0)),
                        "t_c": draw(st.floats(45.0, 60.0)), "hum": draw(st.floats(0.0, 100.0))}
    spec["rel"] = draw(st.floats(35.0, 80.0)) * gen.DEG
    return spec


def _cfg():
    return st.one_of(st.just({}), st.just({}),
                     st.fixed_dictionaries({}, optional={"max_calc_step_size_feet": st.sampled_from([0.5, 1.0, 2.0]),
                                                         "cMinimumVelocity": st.sampled_from([0.0, 50.0, 400.0]),
                                                         "cMaximumDrop": st.sampled_from([-15000.0, -50.0, -5.0]),
                                                         "cMinimumAltitude": st.sampled_from([-1410.748, -20.0, 500.0]),
                                                         "cGravityConstant": st.sampled_from([-32.17405, -30.0])}))


def _outcome(fn):
    try:
        return fn()
    except pb.RangeError as e:
        return ("RangeError", e.reason, tuple(build.rows_raw(e.incomplete_trajectory)),
                e.last_distance.raw_value if e.last_distance is not None else None)
    except pb.ZeroFindingError as e:
        return ("ZeroFindingError", e.zero_finding_error, e.iterations_count, e.last_barrel_elevation.raw_value)
    except ArithmeticError as e:
        return ("ArithmeticError", str(type(e).__name__))


ARG_MUTATED = []   # (operation, which argument, before, after): quantities passed as call arguments are the caller's too


def _q(op, what, unit, value):
    """a quantity to pass as a call argument, in a generated display unit; remembered so that _do can see it change"""
    q = unit(value)
    return q, (op, what, q.raw_value, q.units)


def _args_intact(*pairs):
    for q, (op, what, raw, units) in pairs:
        if q.raw_value != raw or q.raw_value.__class__ is not raw.__class__:
            ARG_MUTATED.append((op, what, raw, q.raw_value))


def _do(op, calc, shot, keep=None):
    """execute one computing operation; -> hashable raw outcome"""
    name, a = op["op"], op["args"]
    if name in ("zero", "elevation"):
        d = _q(name, "distance", D.Foot, a["d"])
        try:
            if name == "zero":
                return _outcome(lambda: ("angle", calc.set_weapon_zero(shot, d[0]).raw_value))
            return _outcome(lambda: ("angle", calc.barrel_elevation_for_target(shot, d[0]).raw_value))
        finally:
            _args_intact(d)
    if name in ("fire", "fire_unreachable"):
        rq, sq = _q(name, "range", D.Foot, a["R"]), _q(name, "step", D.Foot, a["step"])

        def f():
            try:
                hit = calc.fire(shot, rq[0], sq[0], extra_data=a.get("extra", False), time_step=a.get("ts", 0.0))
            finally:
                _args_intact(rq, sq)
            if keep is not None:
                keep.append(hit.trajectory)
            return ("rows", tuple(build.rows_raw(hit.trajectory)))
        try:
            return f()
        except pb.RangeError as e:
            if keep is not None:
                keep.append(e.incomplete_trajectory)
            return ("RangeError", e.reason, tuple(build.rows_raw(e.incomplete_trajectory)),
                    e.last_distance.raw_value if e.last_distance is not None else None)
    if name == "danger":
        def f():
            hit = calc.fire(shot, D.Foot(a["R"]), D.Foot(a["R"] / 20), extra_data=True)
            at, th = _q(name, "at_range", D.Foot, a["R"] * a["at"]), _q(name, "target_height", D.Inch, a["h"])
            try:
                ds = hit.danger_space(at[0], th[0])
            finally:
                _args_intact(at, th)
            return ("danger", ds.begin.distance.raw_value, ds.end.distance.raw_value, ds.at_range.distance.raw_value)
        return _outcome(f)
    raise AssertionError(name)


def _calc_for(cfg):
    return pb.Calculator(_config=dict(cfg)) if cfg else pb.Calculator()


class Pristine:
    """A child process forked before the first operation of a history. It answers every request in a grandchild forked
    from itself, so each answer is computed from library state (module globals, class attributes, caches) that no operation
    of this history - and no earlier request - has touched. The in-process clean-room run shares the process with the
    history and cannot see a leak through process-global state; this can."""

    def __init__(self):
        r1, w1 = os.pipe()
        r2, w2 = os.pipe()
        self.pid = os.fork()
        if self.pid == 0:
            try:
                os.close(w1)
                os.close(r2)
                fin, fout = os.fdopen(r1, "rb"), os.fdopen(w2, "wb")
                while True:
                    try:
                        op, cfg, spec = pickle.load(fin)
                    except EOFError:
                        break
                    rr, ww = os.pipe()
                    g = os.fork()
                    if g == 0:
                        try:
                            os.close(rr)
                            try:
                                out = ("ok", repr(_do(op, _calc_for(cfg), build.shot(spec))))
                            except BaseException as e:  # noqa
                                out = ("exc", f"{type(e).__name__}: {e}"[:300])
                            with os.fdopen(ww, "wb") as f:
                                pickle.dump(out, f)
                        finally:
                            os._exit(0)
                    os.close(ww)
                    with os.fdopen(rr, "rb") as f:
                        data = f.read()
                    os.waitpid(g, 0)
                    fout.write(struct.pack("<Q", len(data)) + data)
                    fout.flush()
            finally:
                os._exit(0)
        os.close(r1)
        os.close(w2)
        self.fout, self.fin = os.fdopen(w1, "wb"), os.fdopen(r2, "rb")

    def ask(self, op, cfg, spec):
        pickle.dump((op, dict(cfg), spec), self.fout)
        self.fout.flush()
        n = struct.unpack("<Q", self.fin.read(8))[0]
        return pickle.loads(self.fin.read(n))

    def close(self):
        try:
            self.fout.close()
            self.fin.close()
        finally:
            os.waitpid(self.pid, 0)


class History:
    # one per process (shard): a child forked before the first history of this process ran anything, and the operations of
    # the histories run since ({"op": "new_history"} separates them) - that log, followed by the current history, is the
    # exact record of what this process has done to the library, and is what a process-state violation is replayed from
    PROCESS = {"pid": None, "zygote": None, "log": []}

    def __init__(self):
        P = History.PROCESS
        if P["pid"] != os.getpid() or len(P["log"]) > 3000:
            if P["pid"] == os.getpid() and P["zygote"] is not None:
                P["zygote"].close()
            P.update(pid=os.getpid(), zygote=Pristine() if hasattr(os, "fork") else None, log=[])
        self.pristine = P["zygote"]
        self.own = []
        self.blame_process = False
        self._reset_pools()

    def _reset_pools(self):
        self.shots = []     # {"spec": dict, "obj": Shot}
        self.calcs = []     # {"cfg": dict, "obj": Calculator, "last_shot": int|None, "ops": int}
        self.results = []   # (live object, raw snapshot)
        self.last = None
        self.after_raise = False
        self.raised_before = False
        self.multi = False
        self.tables = {t: copy.deepcopy(getattr(pb, t)) for t in SHIP}
        self.lab = set()

    # -- helpers
    def _shot(self, i):
        if not self.shots:
            self._new_shot({"table": "TableG7", "bc": 0.3, "mv": 2600.0, "wdl": [168.0, 0.308, 1.2], "sh": 2.0, "twist": 10.0, "zero": 0.0,
                            "look": 0.0, "rel": 0.0, "cant": 0.0, "atmo": {"kind": "icao", "alt": 0.0}, "winds": None})
        return self.shots[i % len(self.shots)]

    @staticmethod
    def _entry(cfg):
        """a pooled calculator; `pin` is its configuration with the step it was created with written out (the global default
        in force at creation when the settings do not name one): what a calculator computes later depends on that, never on
        what the global default has been set to since"""
        obj = pb.Calculator(_config=dict(cfg)) if cfg else pb.Calculator()
        eff = cfg.get("max_calc_step_size_feet", pb.get_global_max_calc_step_size() >> D.Foot)
        return {"cfg": dict(cfg), "pin": dict(cfg, max_calc_step_size_feet=eff), "obj": obj, "last_shot": None, "ops": 0}

    def _calc(self, i):
        if not self.calcs:
            self.calcs.append(self._entry({}))
        return self.calcs[i % len(self.calcs)]

    def _new_shot(self, spec):
        spec = copy.deepcopy(spec)
        self.shots.append({"spec": spec, "obj": build.shot(spec)})
        if len(self.shots) > 4:
            self.shots.pop(0)

    def _invariants(self, r, after):
        for k, s in enumerate(self.shots):
            live = build.snapshot_shot(s["obj"])
            model = build.snapshot_shot(build.shot(s["spec"]))
            if live != model:
                diff = [f for f in live if live[f] != model[f]]
                r.bad(f"C10:argument-mutated:{diff[0]}", f"after {after}: pooled shot {k} differs from its model in {diff} "
                      f"(live {str(live[diff[0]])[:120]} vs model {str(model[diff[0]])[:120]})")
                return
        for t in SHIP:
            if getattr(pb, t) != self.tables[t]:
                r.bad(f"C10:shipped-table-mutated:{t}", f"after {after}: module-level {t} changed")
                return
        for obj, snap in self.results:
            if tuple(build.rows_raw(obj)) != snap:
                r.bad("C10:earlier-result-changed", f"after {after}: a result list handed out earlier has changed "
                      f"({len(obj)} rows now, {len(snap)} when returned)")
                return

    def _compute(self, r, op, ci, si):
        c, s = self._calc(ci), self._shot(si)
        keep = []
        before_zero = s["spec"]["zero"]
        del ARG_MUTATED[:]
        live = _do(op, c["obj"], s["obj"], keep)
        if ARG_MUTATED:
            o_, what, b_, a_ = ARG_MUTATED[0]
            r.bad(f"C10:argument-mutated:call-argument:{what}", f"{o_}: the {what} quantity passed to the call had raw value {b_!r} before and {a_!r} after")
        clean = _do(op, _calc_for(c["pin"]), build.shot(s["spec"]))
        far = self.pristine.ask(op, c["pin"], s["spec"]) if self.pristine is not None else None
        if far is not None and far[0] == "ok" and far[1] != repr(clean) and live == clean:
            self.blame_process = True
            r.bad(f"C10:process-state-dependent-result:{op['op']}", f"{op['op']} computed in this process (fresh calculator, shot rebuilt from the model) differs "
                  f"from the same computation in a process forked before this process had run anything: an earlier operation left something "
                  f"behind in process-global state (here {repr(clean)[:110]} vs untouched process {far[1][:110]})")
        elif far is not None and far[0] == "exc":
            raise RuntimeError("pristine process failed: " + far[1])
        if live != clean:
            what = "outcome kind" if live[0] != clean[0] else live[0]
            detail = ""
            if live[0] == clean[0] and live[0] in ("rows", "RangeError"):
                ra, rb = (live[1], clean[1]) if live[0] == "rows" else (live[2], clean[2])
                for i, (x, y) in enumerate(zip(ra, rb)):
                    if x != y:
                        j = next(j for j in range(len(x)) if x[j] != y[j])
                        detail = f" row {i} column {(build.NUM_COLS + ('flag',))[j]}: {x[j]!r} vs {y[j]!r}"
                        break
                else:
                    detail = f" {len(ra)} vs {len(rb)} rows"
            r.bad(f"C10:history-dependent-result:{op['op']}", f"{op['op']} on a used calculator / pooled shot differs from the same operation on a "
                  f"fresh calculator and a shot rebuilt from the model ({what}{detail}; live {str(live)[:100]} vs clean {str(clean)[:100]})")
        # model update: zero stores the returned elevation, and only on success
        if op["op"] == "zero" and live[0] == "angle":
            s["spec"]["zero"] = live[1]
        for k in keep:
            self.results.append((k, tuple(build.rows_raw(k))))
        self.results = self.results[-6:]
        if live[0] in ("RangeError", "ZeroFindingError", "ArithmeticError"):
            self.raised_before = True
            self.lab.add("raised")
            if not r.violations:
                self._probe(r, c)   # a failed call must leave nothing behind in the calculator
        elif self.raised_before:
            self.after_raise = True
        if c["last_shot"] is not None and c["last_shot"] != id(s["obj"]):
            self.multi = True
        c["last_shot"] = id(s["obj"])
        c["ops"] += 1
        self.last = (op, ci, si)

    PROBES = (
        {"table": "TableG1", "bc": 0.15, "mv": 800.0, "wdl": None, "sh": 1.5, "twist": 0.0, "zero": 0.0, "look": 0.0, "rel": 0.02, "cant": 0.0,
         "atmo": {"kind": "icao", "alt": 0.0}, "winds": None},
        {"table": "TableG7", "bc": 0.3, "mv": 2700.0, "wdl": [168.0, 0.308, 1.2], "sh": 2.0, "twist": 10.0, "zero": 0.0, "look": -0.15, "rel": 0.0,
         "cant": 0.0, "atmo": {"kind": "icao", "alt": 3000.0}, "winds": [[10.0, 1.5, 1e8]]},
    )

    def _probe(self, r, c):
        """fixed probe shots on a used calculator vs a fresh calculator of the same configuration"""
        for spec in self.PROBES:
            op = {"op": "fire", "args": {"R": 1200.0, "step": 150.0, "extra": False}}
            live = _do(op, c["obj"], build.shot(spec))
            clean = _do(op, _calc_for(c["pin"]), build.shot(spec))
            if live != clean:
                r.bad("C10:history-dependent-result:probe-after-raise", f"after a raising call the calculator (config {c['cfg']}) computes a probe shot "
                      f"differently from a fresh calculator of the same configuration (live {str(live)[:90]} vs clean {str(clean)[:90]})")
                return
        self.lab.add("probed-after-raise")

    # -- interpreter
    def case_prefix(self):
        """operations of the earlier histories of this process - part of the case only when process state is what failed"""
        return list(History.PROCESS["log"]) if self.blame_process else []

    def apply(self, op):
        r = Res()
        name, a = op["op"], op["args"]
        if name == "new_history":      # only in replayed cases: the boundary between two histories of one process
            History.PROCESS["log"].extend(self.own + [{"op": "new_history", "args": {}}])
            self.own = []
            self._reset_pools()
            lib.reset_state()
            return r
        self.own.append(op)
        if name in ("new_shot", "new_shot_extreme"):
            self._new_shot(a["spec"])
            if name == "new_shot_extreme":
                self.lab.add("extreme-atmosphere-shot")
        elif name == "new_calc":
            self.calcs.append(self._entry(a["cfg"]))
            if len(self.calcs) > 3:
                self.calcs.pop(0)
        elif name in ("zero", "elevation", "fire", "fire_unreachable", "danger"):
            self._compute(r, op, a["c"], a["s"])
        elif name == "set_global_step":
            # the global default step concerns calculators created afterwards only
            pb.set_global_max_calc_step_size(D.Foot(a["x"]))
            self.lab.add("global-step-set")
        elif name == "reset_globals":
            pb.reset_globals()
        elif name == "repeat" and self.last is not None:
            self._compute(r, *self.last)
        elif name == "construct_unrelated":
            s = self._shot(a["s"])
            dm = s["obj"].ammo.dm
            k = a["k"] % 9
            self.lab.add(f"construct:{k}")
            if k == 4:
                pb.Vacuum()
            elif k == 5:
                pb.Vacuum(D.Foot(2000.0 + 100.0 * a["k"]), pb.Temperature.Celsius(-30.0 + a["k"]))
            elif k == 6:
                cold = pb.Atmo(D.Foot(30000.0), pb.Pressure.hPa(300.0), pb.Temperature.Celsius(-80.0), 0.0)
                cold.get_density_factor_and_mach_for_altitude(60000.0)
                pb.Atmo.icao(D.Foot(36000.0)).get_density_factor_and_mach_for_altitude(-1000.0)
            elif k == 7:
                pb.Calculator(_config={"max_calc_step_size_feet": 3.0, "cGravityConstant": -10.0, "cMinimumVelocity": 900.0,
                                       "cMaximumDrop": -3.0, "cMinimumAltitude": 5000.0, "cZeroFindingAccuracy": 0.01, "cMaxIterations": 3})
                pb.Wind()
                pb.Wind(V.FPS(5.0), A.Degree(45.0), D.Foot(100.0), max_distance_feet=500.0)
            elif k == 8:
                am = pb.Ammo(pb.DragModel(0.2, dm.drag_table), V.FPS(2500.0), pb.Temperature.Celsius(10.0))
                am.calc_powder_sens(V.FPS(2450.0), pb.Temperature.Celsius(-5.0))
                am.get_velocity_for_temp(pb.Temperature.Celsius(35.0))
                pb.Weapon(D.Inch(3.0), D.Inch(-9.0), A.Mil(2.0))
            elif k == 0:
                pb.DragModelMultiBC([pb.BCPoint(0.3, Mach=1.0), pb.BCPoint(0.35, V=V.FPS(2400))], dm.drag_table)
            elif k == 1:
                pb.DragModel(0.4, dm.drag_table, pb.Weight.Grain(150), D.Inch(0.3), D.Inch(1.1))
            elif k == 2:
                pb.Sight("SFP", D.Meter(100), A.Mil(0.1), A.Mil(0.1)).get_adjustment(D.Meter(300), A.Mil(1), A.Mil(1), 10)
                pb.Atmo.icao(s["obj"].atmo.altitude)
            else:
                pb.Shot(s["obj"].weapon, s["obj"].ammo, atmo=s["obj"].atmo, winds=list(s["obj"]._winds))
        elif name == "edit":
            s = self._shot(a["s"])
            obj, spec = s["obj"], s["spec"]
            k = a["what"]
            self.lab.add("edit:" + k)
            if k == "bc":
                obj.ammo.dm.BC = a["x"] * 0.9 + 0.1
                spec["bc"] = a["x"] * 0.9 + 0.1
            elif k == "cd":
                tbl = obj.ammo.dm.drag_table
                p = tbl[a["j"] % len(tbl)]
                p.CD = p.CD * (0.8 + 0.4 * a["x"])
                spec["table"] = {"custom": [[q.Mach, q.CD] for q in tbl]}
            elif k == "wind" and spec.get("winds"):
                j = a["j"] % len(spec["winds"])
                w = obj._winds[j]
                which = a["j"] % 3
                if which == 0:
                    spec["winds"][j][0] = 40.0 * a["x"]
                    w.velocity = V.FPS(40.0 * a["x"])
                elif which == 1:
                    spec["winds"][j][1] = (2 * a["x"] - 1) * math.pi
                    w.direction_from = A.Radian(spec["winds"][j][1])
                else:
                    spec["winds"][j][2] = 20.0 + 900.0 * a["x"]
                    w.until_distance = D.Foot(spec["winds"][j][2])
            elif k == "humidity" and spec["atmo"]["kind"] == "explicit":
                obj.atmo.humidity = 100.0 * a["x"]
                spec["atmo"]["hum"] = 100.0 * a["x"]
            elif k == "mv":
                spec["mv"] = 400.0 + 2800.0 * a["x"]
                obj.ammo.mv = V.FPS(spec["mv"])
            elif k == "look":
                spec["look"] = (a["x"] - 0.5) * 1.2
                obj.look_angle = A.Radian(spec["look"])
            elif k == "twist":
                spec["twist"] = [0.0, 8.0, -12.0][a["j"] % 3]
                obj.weapon.twist = D.Inch(spec["twist"])
            elif k == "powder":
                # powder sensitivity switched on with a modifier of any size (a fraction per 15 C; values above 1 are legal
                # numbers too); the baseline sits within a few degrees of the air so that the launch speed stays sane
                mod = [0.01, -0.03, 1.2, -1.01, 1.01, 2.5][a["j"] % 6]
                t0 = (obj.atmo.temperature >> pb.Temperature.Celsius) + (4.0 * a["x"] - 2.0)
                spec["powder"] = {"t0_c": t0, "mod": mod}
                obj.ammo.powder_temp = pb.Temperature.Celsius(t0)
                obj.ammo.temp_modifier = mod
                obj.ammo.use_powder_sensitivity = True
        self._invariants(r, name)
        return r

    def nontrivial(self):
        return self.multi or self.after_raise

    def labels(self):
        out = sorted(self.lab)
        if self.multi:
            out.append("calculator-used-for-several-shots")
        if self.after_raise:
            out.append("operation-after-raise")
        return out

    def close(self):
        if self.own:
            History.PROCESS["log"].extend(self.own + [{"op": "new_history", "args": {}}])
            self.own = []


_c, _s = st.integers(0, 2), st.integers(0, 3)
_R = st.floats(60.0, 900.0)
H_RULES = {
    "new_shot": st.fixed_dictionaries({"spec": _shot_spec()}),
    "new_shot_extreme": st.fixed_dictionaries({"spec": _extreme_spec()}),
    "new_calc": st.fixed_dictionaries({"cfg": _cfg()}),
    "zero": st.fixed_dictionaries({"c": _c, "s": _s, "d": st.floats(60.0, 900.0)}),
    "elevation": st.fixed_dictionaries({"c": _c, "s": _s, "d": st.floats(60.0, 900.0)}),
    "fire": st.fixed_dictionaries({"c": _c, "s": _s, "R": _R, "step": st.floats(10.0, 300.0), "extra": st.booleans(),
                                   "ts": st.sampled_from([0.0, 0.0, 0.05])}),
    "fire_unreachable": st.fixed_dictionaries({"c": _c, "s": _s, "R": st.just(1.0e5), "step": st.just(2.0e4), "extra": st.booleans()}),
    "danger": st.fixed_dictionaries({"c": _c, "s": _s, "R": st.floats(200.0, 900.0), "at": st.floats(0.1, 0.9), "h": st.floats(1.0, 60.0)}),
    "construct_unrelated": st.fixed_dictionaries({"s": _s, "k": st.integers(0, 35)}),
    "repeat": st.just({}),
    "set_global_step": st.fixed_dictionaries({"x": st.sampled_from([0.25, 1.0, 2.0, 0.5])}),
    "reset_globals": st.just({}),
    "edit": st.fixed_dictionaries({"s": _s, "what": st.sampled_from(["bc", "cd", "wind", "humidity", "mv", "look", "twist", "powder"]),
                                   "x": st.floats(0.0, 1.0), "j": st.integers(0, 80)}),
}


# ================================================================================================ (b) / (c) threads
@st.composite
def _thread_case(draw, with_schedule=True):
    k = draw(st.integers(2, 4))
    jobs = []
    for _ in range(k):
        jobs.append({"shot": draw(_shot_spec()), "cfg": draw(_cfg()), "d": draw(st.floats(60.0, 240.0)), "R": draw(st.floats(60.0, 300.0)),
                     "extra": draw(st.booleans())})
    for j in jobs:
        j["cfg"] = dict(j["cfg"], max_calc_step_size_feet=max(1.0, j["cfg"].get("max_calc_step_size_feet", 1.0)))
    shared = draw(st.booleans())
    case = {"jobs": jobs, "shared_shot": shared}
    if with_schedule:
        case["schedule"] = draw(st.lists(st.tuples(st.integers(0, k - 1), st.one_of(st.integers(1, 40), st.integers(1, 2000))),
                                         min_size=5, max_size=120))
        case["schedule"] = [list(x) for x in case["schedule"]]
    return case


def _mk_jobs(case):
    shared_shot = build.shot(case["jobs"][0]["shot"]) if case["shared_shot"] else None
    fns = []
    for j in case["jobs"]:
        def fn(j=j):
            calc = pb.Calculator(_config=dict(j["cfg"]))
            sh = shared_shot if shared_shot is not None else build.shot(j["shot"])
            out = []
            if shared_shot is None:
                out.append(_do({"op": "zero", "args": {"d": j["d"]}}, calc, sh))
            else:
                out.append(_do({"op": "elevation", "args": {"d": j["d"]}}, calc, sh))   # a shared shot is only read
            out.append(_do({"op": "fire", "args": {"R": j["R"], "step": j["R"] / 4, "extra": j["extra"]}}, calc, sh))
            return out
        fns.append(fn)
    return fns


def check_schedule(case):
    r = Res()
    seq = [fn() for fn in _mk_jobs(case)]
    s = sched.Scheduler(_mk_jobs(case), [tuple(x) for x in case["schedule"]])
    res, errs = s.run()
    for i, (a, b, e) in enumerate(zip(seq, res, errs)):
        if e is not None:
            r.bad(f"C10:schedule:exception:{type(e).__name__}", f"job {i} raised {type(e).__name__}: {e} under the generated schedule but not sequentially")
            break
        if a != b:
            what = next((n for n, (x, y) in zip(("zero", "fire"), zip(a, b)) if x != y), "?")
            r.bad(f"C10:schedule:result-depends-on-interleaving:{what}", f"job {i} ({what}) differs between sequential execution and the generated "
                  f"interleaving ({s.switches} switches, {s.lines} lines)")
            break
    r.nontrivial = s.switches >= 20
    r.info["switches"] = s.switches
    r.label(f"threads:{len(case['jobs'])}", "shared-shot" if case["shared_shot"] else "own-shots",
            f"switches:{'<20' if s.switches < 20 else '20-200' if s.switches < 200 else '200+'}")
    return r


def check_free(case):
    r = Res()
    seq = [fn() for fn in _mk_jobs(case)]
    for rep in range(3):
        res, errs = sched.run_free(_mk_jobs(case))
        for i, (a, b, e) in enumerate(zip(seq, res, errs)):
            if e is not None:
                r.bad(f"C10:threads:exception:{type(e).__name__}", f"job {i} raised {type(e).__name__}: {e} in a free-running thread but not sequentially")
                return r
            if a != b:
                r.bad("C10:threads:result-depends-on-interleaving", f"job {i} differs between sequential and concurrent execution (repetition {rep})")
                return r
    r.nontrivial = True
    r.label(f"threads:{len(case['jobs'])}")
    return r


def parts(tier):
    return [
        Part("histories", kind="machine", interp=History, rules=H_RULES, n={"quick": 224, "thorough": 6000},
             steps={"quick": 14, "thorough": 30}),
        Part("schedules", strategy=_thread_case(True), check=check_schedule, n={"quick": 160, "thorough": 3200}),
        Part("free-threads", strategy=_thread_case(False), check=check_free, n={"quick": 120, "thorough": 2400}),
    ]


MANIFEST = {
    "technique": "Hypothesis rule-based state machine with clean-room differential (fresh objects in-process, and the same operation in a process forked before the history began) / argument snapshots / result stability after every rule; generated schedules executed by a harness-owned line-granularity thread scheduler; free-running thread stress",
    "text": "After every operation of a generated history the outcome equals the same operation on a fresh calculator with a shot rebuilt from the model (bit-identical rows, angles, exception payloads), every pooled argument equals its model "
            "(only zeroing changes the stored zero, only on success), shipped tables and earlier results are unchanged, and the same operation run in a process forked before the history began gives the same bits (nothing left behind in process-global state); zero+fire jobs on distinct calculators give sequential results under generated interleavings and in free-running threads. "
            "Exploration level over histories and schedules.",
    "note": "schedules explored at line granularity; free-thread failures would not replay deterministically",
}
