"""C11 - What is recorded never changes what is computed."""
import math
from hypothesis import strategies as st

from .. import lib, gen, build
from ..core import Part, Res

pb = lib.pb

ID = "C11"
RULE = ("one generated shot (shared generator incl. winds, cant, look angles) and two requests (range, step, time_step, "
        "extra) constructed to share recording distances: steps a*u and b*u for small integers a,b (u from 0.05 ft, i.e. "
        "also below the integration step, to 100 ft), ranges multiples of the common step plus an optional excess, "
        "time_step in {0, t1, t2}, extra in {F,T}, default-step requests; non-trivial = >= 3 common distances and the "
        "requests differ in >= 2 of (range, step, time_step, extra); distinct = distinct case dicts; in 4 of 7 cases the calculator under test has a past (build.calculator prior: extra-data fire / "
        "subsonic fire / zeroing / RangeError for another fixed shot)")
ASSUMPTIONS = ["rows are matched on the requested multiples (k1*s1 == k2*s2 within 1e-9 relative)",
               "columns compared on raw values with 1e-9 relative + 1e-12 absolute tolerance (covers the accumulated "
               "rounding of the record distance, which moves the interpolation point by ulps)"]

REL, ABS = 1e-9, 1e-12


@st.composite
def _case(draw):
    u = math.exp(draw(st.floats(math.log(0.05), math.log(100.0))))
    a, b = draw(st.integers(1, 6)), draw(st.integers(1, 6))
    common = a * b // math.gcd(a, b) * u
    k = draw(st.integers(1, 12))
    R2 = common * k
    while R2 < 30.0:
        R2 += common * max(1, int(30.0 / common))
    R2 = min(R2, 3600.0)
    exc2 = draw(st.sampled_from([0.0, 0.0, 0.3, 0.7])) * u
    frac = draw(st.sampled_from([1.0, 1.0, 0.5, 0.25, 0.75]))
    R1 = max(common, math.floor(R2 * frac / common) * common) + draw(st.sampled_from([0.0, 0.0, 0.4])) * u
    spec = draw(gen.shot(look_max_deg=45.0, rel_deg=(-1.0, 6.0), range_ft=R2, max_winds=3))
    # also time steps shorter than one integration step (0.25 ft / speed: 1e-4 s for a rifle, milliseconds for a lob)
    t1 = draw(st.sampled_from([0.0, 0.0, 0.01, 0.05, 0.2, 2e-4, 1e-3, 2e-5]))
    t2 = draw(st.sampled_from([0.0, t1, t1, 0.03, 0.1, 5e-4]))
    if min(x for x in (t1, t2, 1.0) if x > 0) < 5e-3:
        R2 = min(R2, 600.0)
        R1 = min(R1, R2)
    req1 = {"R": R1, "s": a * u, "ts": t1, "extra": draw(st.booleans())}
    req2 = {"R": R2 + exc2, "s": b * u, "ts": t2, "extra": draw(st.booleans())}
    if draw(st.integers(0, 7)) == 0:
        req1["s"] = None  # default step = R/10
    return {"shot": spec, "req": [req1, req2], "h": draw(st.sampled_from([0.5, 0.5, 0.25, 1.0])),
            "cut": draw(st.floats(0.15, 0.95)), "prior": draw(gen.prior()),
            # one case in five: the first request's record step is placed so that a record distance falls inside the integration
            # step in which one of the shot's events (sight-line crossing, Mach 1) is detected (placement decided by the check
            # from a preliminary trace of the same shot: a deterministic function of the case)
            "event_align": draw(st.one_of(st.none(), st.none(), st.none(), st.none(),
                                          st.fixed_dictionaries({"pick": st.integers(0, 5), "frac": st.floats(0.02, 0.98), "k": st.integers(1, 8),
                                                                 "beyond": st.sampled_from([2.37, 1.0, 3.5, 0.4])})))}


def _fire(case, req, prior=None):
    calc = build.calculator({"max_calc_step_size_feet": case["h"]}, prior=prior)
    sh = build.shot(case["shot"])
    return build.fire(calc, sh, req["R"], req["s"], extra=req["extra"], time_step=req["ts"])


def _cmp_rows(r, key, a, b, what):
    ra, rb = build.row_raw(a), build.row_raw(b)
    for name, x, y in zip(build.NUM_COLS, ra, rb):
        if abs(x - y) > REL * max(abs(x), abs(y)) + ABS:
            r.bad(f"{key}:{name}", f"{what}: column {name} differs: {x!r} vs {y!r} at distance {ra[1] / 12.0!r} ft")
            return False
    if (ra[-1] & 8) != (rb[-1] & 8):
        r.bad(f"{key}:range-flag", f"{what}: RANGE bit differs at distance {ra[1] / 12.0!r} ft ({ra[-1]} vs {rb[-1]})")
        return False
    return True


def _at(rows, m):
    hits = [row for row in rows if abs(row.distance.raw_value / 12.0 - m) <= 1e-9 * max(1.0, m)]
    return hits


def check(case):
    r = Res()
    req1, req2 = case["req"]
    ea = case.get("event_align")
    if ea:
        # (the trace asks for a 1e-12 s time step; should recording options ever slow the integration down, the step budget
        # ends the placement instead of hanging the check - termination itself is C04's subject)
        tsh = build.shot(case["shot"])
        _, Exceeded = build.counting(tsh.atmo, int(40 * max(req1["R"], req2["R"]) / case["h"]) + 20000)
        try:
            pre, perr = build.trace(build.calculator({"max_calc_step_size_feet": case["h"]}), tsh, max(req1["R"], req2["R"]), extra=True)
        except Exceeded:
            pre, perr = [], None
            r.label("event-align:trace-over-budget")
        evs = [i for i, p in enumerate(pre) if i >= 3 and (p.flag & 7) and i < len(pre) - (1 if perr is not None else 0)]
        if evs:
            i = evs[ea["pick"] % len(evs)]
            target = pre[i - 1].x + ea["frac"] * (pre[i].x - pre[i - 1].x)
            s_new = target / ea["k"]
            req1 = dict(req1, s=s_new, R=target + ea["beyond"] * s_new, extra=bool(ea["pick"] % 2))
            case = dict(case, req=[req1, req2])
            r.label("record-distance-inside-event-step:" + ("mach" if pre[i].flag & 4 else "zero"))
        else:
            r.label("event-align:no-event")
    # the first request may run on a calculator that has been used before (for another shot, with other recording options)
    rows1, e1 = _fire(case, req1, case.get("prior"))
    if case.get("prior"):
        r.label("calculator-used-before:" + case["prior"])
    rows2, e2 = _fire(case, req2)
    s1 = req1["s"] if req1["s"] is not None else req1["R"] / 10.0
    s2 = req2["s"]
    # common requested multiples
    lim = min(req1["R"], req2["R"])
    if e1 is not None:
        lim = min(lim, rows1[-2].distance.raw_value / 12.0 if len(rows1) > 1 else 0.0)
        r.label("range-error")
    if e2 is not None:
        lim = min(lim, rows2[-2].distance.raw_value / 12.0 if len(rows2) > 1 else 0.0)
    common = 0
    k1 = 0
    while k1 * s1 <= lim * (1 + 1e-12) and k1 < 5000:
        m = k1 * s1
        k2 = round(m / s2)
        if abs(k2 * s2 - m) <= 1e-9 * max(1.0, m):
            h1, h2 = _at(rows1, m), _at(rows2, m)
            if h1 and h2:
                common += 1
                if not _cmp_rows(r, "C11:row-differs-between-requests", h1[0], h2[0], f"requests {req1} / {req2}"):
                    break
            elif (h1 or h2) and m <= lim * (1 - 1e-9):
                if s1 >= case["h"] and s2 >= case["h"]:
                    r.bad("C11:subset:row-missing-in-one-request", f"distance {m!r} ft is recorded by one request but not the other ({req1} / {req2})")
                    break
        k1 += 1
    # extra vs plain of the same request
    for req, rows, err in ((req1, rows1, e1), (req2, rows2, e2)):
        other = dict(req, extra=not req["extra"])
        rows_o, err_o = _fire(case, other)
        plain, extra = (rows, rows_o) if not req["extra"] else (rows_o, rows)
        perr, xerr = (err, err_o) if not req["extra"] else (err_o, err)
        if (perr is None) != (xerr is None):
            r.bad("C11:extra-vs-plain:outcome", f"request {req}: plain {'raises' if perr else 'returns'} but extra {'raises' if xerr else 'returns'}")
            continue
        j = 0
        matched = 0
        ok = True
        for prow in plain:
            # find the same row in the extra output (same time): extra output is a superset in order
            while j < len(extra) and extra[j].time < prow.time * (1 - 1e-12) - 1e-15:
                if not (int(extra[j].flag) & 7):
                    r.bad("C11:extra-vs-plain:additional-row-not-an-event", f"request {req}: extra output has a row at "
                          f"{extra[j].distance.raw_value / 12.0!r} ft (flag {int(extra[j].flag)}) that the plain output lacks and that is no event")
                    ok = False
                    break
                j += 1
            if not ok:
                break
            if j >= len(extra) or abs(extra[j].time - prow.time) > 1e-9 * max(prow.time, 1e-9) + 1e-15:
                r.bad("C11:extra-vs-plain:plain-row-missing", f"request {req}: plain row at {prow.distance.raw_value / 12.0!r} ft "
                      f"(t={prow.time!r}) is absent from the extra output")
                ok = False
                break
            if not _cmp_rows(r, "C11:extra-vs-plain:row-differs", prow, extra[j], f"request {req} plain vs extra"):
                ok = False
                break
            matched += 1
            j += 1
        if ok:
            for x in extra[j:]:
                if not (int(x.flag) & 7):
                    r.bad("C11:extra-vs-plain:additional-row-not-an-event", f"request {req}: trailing extra row at "
                          f"{x.distance.raw_value / 12.0!r} ft (flag {int(x.flag)}) is no event")
                    break
        if len(extra) > len(plain):
            r.label("has-event-rows")
        break  # one extra-vs-plain comparison per case keeps the cost at 3 fires
    # the same request cut short (same step, time step and extra flag): all its rows - time-step and event rows included,
    # flags included - are the leading rows of the longer one; the last two integration steps before the cut are left
    # out (an event or time row falling due exactly there may be recorded by the longer request only)
    if e2 is None and not r.violations:
        n2 = int(req2["R"] / s2 * case.get("cut", 0.5))
        if n2 >= 1:
            short = dict(req2, R=n2 * s2)
            rows_s, e_s = _fire(case, short)
            if e_s is None:
                edge = n2 * s2 - 2 * case["h"]
                lead_s = [x for x in rows_s if x.distance.raw_value / 12.0 < edge]
                lead_l = [x for x in rows2 if x.distance.raw_value / 12.0 < edge]
                if len(lead_s) != len(lead_l):
                    r.bad("C11:shorter-request-not-a-prefix:row-count", f"request {req2} cut at {short['R']!r} ft: {len(lead_s)} rows before "
                          f"{edge!r} ft, the full request has {len(lead_l)} there")
                else:
                    for x, y in zip(lead_s, lead_l):
                        if not _cmp_rows(r, "C11:shorter-request-not-a-prefix", x, y, f"request {req2} cut at {short['R']!r} ft"):
                            break
                        if int(x.flag) != int(y.flag):
                            r.bad("C11:shorter-request-not-a-prefix:flag", f"request {req2} cut at {short['R']!r} ft: row at "
                                  f"{x.distance.raw_value / 12.0!r} ft has flag {int(x.flag)}, in the full request {int(y.flag)}")
                            break
                    if len(lead_s) >= 3:
                        r.label("prefix-compared")
    differ = sum([abs(req1["R"] - req2["R"]) > 1e-9, abs(s1 - s2) > 1e-9, req1["ts"] != req2["ts"], req1["extra"] != req2["extra"]])
    r.nontrivial = common >= 3 and differ >= 2
    r.label(f"common:{'0' if common == 0 else '1-2' if common < 3 else '3+'}")
    if min(s1, s2) < case["h"] / 2:
        r.label("step-below-integration-step")
    if req1["ts"] or req2["ts"]:
        r.label("time-step")
    return r


def parts(tier):
    return [Part("requests", strategy=_case(), check=check, n={"quick": 3200, "thorough": 250000})]


MANIFEST = {
    "technique": "Hypothesis-generated shot + pairs of requests constructed to share recording distances; metamorphic row equality / subset relations",
    "text": "Rows at common requested distances agree in all 15 numeric columns (1e-9 rel) between requests differing in range, step (also below the integration step), time_step and extra flag; "
            "extra output = plain rows + only event-flagged rows; the same request cut short returns the leading rows of the full one, flags included. Exploration level.",
    "note": "matching is on requested multiples; tolerance covers accumulated record-distance rounding only",
}
