"""C06 - Unit conversions agree with the SI definitions and invert exactly."""
import math
from hypothesis import strategies as st

from .. import lib, ref
from ..core import Part, Res

pb = lib.pb
Unit = pb.Unit

ID = "C06"
RULE = ("all ordered same-dimension unit pairs (287) and triples (2267) are enumerated exhaustively with a fixed edge "
        "magnitude list, and additionally sampled with generated log-uniform magnitudes +-(1e-9..1e9, and 1e-200..1e200) (angles kept "
        "inside one turn, tangent units inside +-1.5 rad, temperatures from 1e4 units below absolute zero upwards); a case is non-trivial "
        "when the units differ and the magnitude is non-zero; distinct = distinct (units, magnitude) tuples")
ASSUMPTIONS = [
    "SI reference table in vf/ref.py (exact inch/pound/grain/nautical mile/g0, conventional mmHg 133.322387415 Pa)",
    "round-trip bound: 16 ulp of the value times the condition number of affine/tangent maps",
]

DIMS = ref.UNITS_BY_DIM
PAIRS = [(a, b) for d in sorted(DIMS) for a in DIMS[d] for b in DIMS[d]]
TRIPLES = [(a, b, c) for d in sorted(DIMS) for a in DIMS[d] for b in DIMS[d] for c in DIMS[d]]
ULPS = 16.0
REL = 1e-6
# below ~1e-290 doubles lose relative precision (subnormals): "a few ulps" is only meaningful as a relative
# statement in the normal range, so tolerances never drop below this absolute floor
FLOOR = 1e-290


def _fit(x, a, others):
    """map magnitude x (given in unit a) into the admissible domain of the dimension (deterministic)"""
    d = ref.DIMENSION[a]
    if d == "angular":
        lim_theta = 1.5 if any(u in ref.TANGENT for u in (a,) + tuple(others)) else 2 * math.pi * (1 - 1e-9)
        lim = abs(ref.from_si(lim_theta, a))
        if abs(x) > lim:
            x = math.copysign(lim * ((abs(x) / lim) % 1.0), x)
    elif d == "temperature":
        lo = ref.from_si(0.0, a)  # absolute zero in unit a
        # the scales are affine maps of the whole real line: readings below absolute zero (down to 1e4 units below it;
        # larger magnitudes are folded back above it) convert like any other number
        if x < lo - 1e4:
            x = lo + (lo - x) % 1e4
    return x


def _cond(theta, unit):
    if unit in ref.TANGENT:
        t = math.tan(theta)
        if t == 0:
            return 1.0
        return max(1.0, abs(theta * (1 + t * t) / t))
    return 1.0


def _tol_ulps(value, a_units, theta=None, inter=()):
    """absolute tolerance for a value that went through the units in a_units"""
    d = ref.DIMENSION[a_units[0]]
    if d == "temperature":
        m = max([abs(value), 500.0] + [abs(v) for v in inter])
        return max(2 * ULPS * ref.ulp(m), FLOOR)
    c = 1.0
    if d == "angular" and theta is not None:
        c = max(_cond(theta, u) for u in a_units)
    return max(ULPS * c * ref.ulp(value), FLOOR)


def _lib_conv(x, a, b):
    return Unit[a](x) >> Unit[b]


def _si_ok(a, b, x=1.0):
    want = ref.convert(x, a, b)
    got = _lib_conv(x, a, b)
    if ref.DIMENSION[a] == "temperature":
        return abs(got - want) <= REL * 300
    return abs(got - want) <= REL * abs(want) * 2


def _blame(a, b):
    """root-cause key: the unit whose conversions to third units are also wrong"""
    dim = ref.DIMENSION[a]
    third = [u for u in DIMS[dim] if u not in (a, b)]
    if third and a != b:
        a_bad = sum(0 if _si_ok(a, w) else 1 for w in third)
        b_bad = sum(0 if _si_ok(w, b) else 1 for w in third)
        if a_bad > b_bad:
            return f"C06:factor:{dim}.{a}"
        if b_bad > a_bad:
            return f"C06:factor:{dim}.{b}"
    return f"C06:si:{a}->{b}"


# exactly one full turn, written as the literal a user would type ("angles within one turn" includes the turn itself)
FULL_TURN = {"Degree": 360.0, "Mil": 6400.0, "Thousandth": 6000.0, "OClock": 12.0, "MOA": 21600.0, "MRad": 2000.0 * math.pi,
             "Radian": 2.0 * math.pi}


def check_pair(case):
    a, b, x = case["a"], case["b"], case["x"]
    if not case.get("exact_turn"):
        x = _fit(x, a, (b,))
    r = Res()
    r.nontrivial = a != b and x != 0
    r.label(ref.DIMENSION[a])
    if ref.DIMENSION[a] == "temperature" and x < ref.from_si(0.0, a):
        r.label("temperature-below-absolute-zero")
    got = _lib_conv(x, a, b)
    want = ref.convert(x, a, b)
    theta = ref.to_si(x, a) if ref.DIMENSION[a] == "angular" else None
    # 1. SI agreement
    if ref.DIMENSION[a] == "temperature":
        kel = abs(ref.to_si(x, a))
        scale = 1.0 / ref.AFFINE[b][1]
        tol = REL * max(kel, 1.0) * scale
    else:
        c = max(_cond(theta, a), _cond(theta, b)) if theta is not None else 1.0
        tol = REL * abs(want) * c + FLOOR
    err = abs(got - want)
    if want != 0:
        r.target = min(err / tol, 10.0) if tol > 0 else 0.0
    if not err <= tol:
        r.bad(_blame(a, b), f"{x!r} {a} -> {b}: library {got!r}, SI definition {want!r} (err {err:.3g} > tol {tol:.3g})",
              x=x, got=got, want=want)
    # 2. round trip
    back = _lib_conv(got, b, a)
    raw = Unit[a](x).raw_value
    tol2 = _tol_ulps(x, (a, b), theta, inter=(got, raw))
    if not abs(back - x) <= tol2:
        r.bad(f"C06:roundtrip:{a}->{b}->{a}", f"{x!r} {a} -> {b} -> {a} = {back!r} (diff {abs(back - x):.3g} > {tol2:.3g})",
              x=x, via=got, back=back)
    # history on one object: read in the display unit, re-display in place, read again (conversion by <<)
    q = Unit[a](x)
    first = q.unit_value
    q << Unit[b]
    second = q.unit_value
    if first != x and not abs(first - x) <= tol2:
        r.bad(f"C06:unit_value:{a}", f"Unit.{a}({x!r}).unit_value = {first!r}")
    if second != got:
        r.bad(f"C06:redisplay:{a}->{b}", f"{x!r} {a} re-displayed in {b}: unit_value {second!r}, but >> {b} gives {got!r}")
    r.info["rt_ulps"] = abs(back - x) / max(ref.ulp(x), 5e-324) if x != 0 else 0.0
    return r


def check_triple(case):
    a, b, c, x = case["a"], case["b"], case["c"], case["x"]
    x = _fit(x, a, (b, c))
    r = Res()
    r.nontrivial = len({a, b, c}) == 3 and x != 0
    r.label(ref.DIMENSION[a])
    via = _lib_conv(x, a, b)
    abc = _lib_conv(via, b, c)
    ac = _lib_conv(x, a, c)
    theta = ref.to_si(x, a) if ref.DIMENSION[a] == "angular" else None
    raw = Unit[a](x).raw_value
    tol = _tol_ulps(ac, (a, b, c), theta, inter=(x, via, raw))
    if not abs(abc - ac) <= tol:
        r.bad(f"C06:transitive:{a}->{b}->{c}", f"{x!r} {a}->{b}->{c} = {abc!r} but {a}->{c} = {ac!r} "
              f"(diff {abs(abc - ac):.3g} > {tol:.3g})", x=x, abc=abc, ac=ac)
    return r


EDGE = [0.0, 1.0, -1.0, 0.5, 2.0, 10.0, -10.0, 100.0, 1e3, -1e3, 1e-3, 1e-6, 1e6, 1e9, -1e9, 1e-9, 3.0, 7.0, 0.1, 59.0,
        273.15, 459.67, 32.0, 360.0, 6.283185307179586, 3200.0, 6000.0, 12.0, 21600.0]


def _enum_pairs():
    for a, b in PAIRS:
        for x in EDGE:
            yield {"a": a, "b": b, "x": x}
        if a in FULL_TURN and b in FULL_TURN:
            yield {"a": a, "b": b, "x": FULL_TURN[a], "exact_turn": True}


def _enum_triples():
    for a, b, c in TRIPLES:
        for x in (1.0, -2.5, 1234.5678, 1e-4):
            yield {"a": a, "b": b, "c": c, "x": x}


def _mag():
    logm = st.one_of(st.floats(min_value=-9.0, max_value=9.0, allow_nan=False), st.floats(min_value=-200.0, max_value=200.0, allow_nan=False))
    return st.one_of(
        st.builds(lambda e, s, m: s * m * 10.0 ** e, logm, st.sampled_from([1.0, -1.0]),
                  st.floats(min_value=1.0, max_value=10.0, exclude_max=True)),
        st.sampled_from(EDGE),
        st.floats(min_value=-1e4, max_value=1e4, allow_nan=False, allow_subnormal=False),
    )


PAIR_S = st.builds(lambda p, x: {"a": p[0], "b": p[1], "x": x}, st.sampled_from(PAIRS), _mag())
TRIPLE_S = st.builds(lambda p, x: {"a": p[0], "b": p[1], "c": p[2], "x": x}, st.sampled_from(TRIPLES), _mag())


def parts(tier):
    return [
        Part("pairs-exhaustive", kind="enum", cases=_enum_pairs, check=check_pair, exhaustive=True),
        Part("triples-exhaustive", kind="enum", cases=_enum_triples, check=check_triple, exhaustive=True),
        Part("pairs-generated", strategy=PAIR_S, check=check_pair, n={"quick": 40000, "thorough": 1500000}),
        Part("triples-generated", strategy=TRIPLE_S, check=check_triple, n={"quick": 30000, "thorough": 1000000}),
    ]

MANIFEST = {
    "technique": "exhaustive unit pairs/triples x generated magnitudes (Hypothesis) against an independent SI table; round-trip and transitivity relations",
    "text": "Every ordered same-dimension pair (287) and triple (2267) of the 41 units is enumerated; magnitudes are generated. "
            "Oracle: independent SI definition table (1e-6 relative), A->B->A within 16 ulp x condition number, A->B->C == A->C. "
            "Exploration level: pairs/triples exhaustive, magnitudes sampled.",
    "note": "trusts vf/ref.py SI table; tolerances stated in DESIGN.md C06; magnitudes below 1e-290 (subnormal range) get an absolute floor",
}
