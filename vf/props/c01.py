"""C01 - Trajectory is the solution of the point-mass equations of motion."""
import math
import os
from hypothesis import strategies as st

from .. import lib, gen, build, ref_ode
from ..core import Part, Res

pb = lib.pb
D, V, T = pb.Distance, pb.Velocity, pb.Temperature

ID = "C01"
RULE = ("shots from the shared generator (all nine tables + custom tables, multi-BC, BC, slow to fast, sight height, look / zero / "
        "relative / cant angles, explicit and standard atmospheres, powder sensitivity, 0..4 wind segments of any direction incl. "
        "duplicates), range 50 ft..3000 ft (quick) / 7500 ft (thorough), rows at R/3, 2R/3, R, base step H in {0.25, 0.5, 1, 2} ft "
        "refined over 3 (quick) / 4 (thorough) halvings; a second part uses Vacuum with any winds against the closed-form "
        "parabola; cases that raise RangeError or whose reference has v_x <= 0.2 |v| are out-of-domain; non-trivial = in-domain "
        "and (wind segment > 1 fps ending inside the range, |look| > 1 deg, |cant| > 1 deg, altitude change > 30 ft, custom "
        "table, powder sensitivity); distinct = distinct case dicts")
ASSUMPTIONS = ["reference = RK4 in x (dx 0.5 ft, error estimate from a second run at dx/2) with the library's own density / speed-of-sound / drag functions as black boxes (C08, C09)",
               "bound: |I_j - R| <= (4 D + 2 J) / 2^j + 4 E_ref + floor, D = max_k 2^k |I_k - I_(k+1)| (measured first-order error at level 0), J = sum over wind boundaries of "
               "the reference's sensitivity to applying that segment one integration step longer, floors 1e-5 ft / 1e-5 fps / 1e-9 s",
               "twist = 0 (spin drift is C05's subject)"]

Q = ("time", "height", "windage", "speed")
FLOOR = {"time": 1e-9, "height": 1e-5, "windage": 1e-5, "speed": 1e-5}
KD, KJ = 4.0, 2.0


@st.composite
def _case(draw, vacuum=False, thorough=False):
    R = math.exp(draw(st.floats(math.log(50.0), math.log(7500.0 if thorough else 3000.0))))
    kinds = ("vacuum",) if vacuum else ("icao", "explicit")
    spec = draw(gen.shot(look_max_deg=60.0, rel_deg=(-2.0, 10.0), range_ft=R, max_winds=4, twist=False, atmo_kinds=kinds, powder=True,
                         zero_deg=(-2.0, 5.0)))
    if draw(st.booleans()):
        spec["zero"] = 0.0
    if abs(spec["look"] + spec["rel"] + spec["zero"]) > 75 * gen.DEG:
        spec["rel"] = 0.0
    if spec["atmo"]["kind"] == "explicit" and draw(st.booleans()) and spec.get("powder"):
        spec["atmo"]["powder_t_c"] = draw(st.floats(-20.0, 45.0))
    cfg = {}
    if draw(st.integers(0, 4)) == 0:
        cfg["cGravityConstant"] = -draw(st.floats(20.0, 40.0))
    H = draw(st.sampled_from([0.25, 0.5, 0.5, 0.5, 1.0, 2.0]))
    if draw(st.integers(0, 9)) == 0:
        # "every solver step size": refinement must keep converging well below the default (short ranges bound the cost)
        H = draw(st.sampled_from([0.1, 0.06, 0.04]))
        R = min(R, 600.0)
        spec["winds"] = [w for w in (spec.get("winds") or []) if w[2] > 5.0] or None
    if not vacuum and draw(st.integers(0, 7)) == 0:
        # flights through and above the top of the troposphere: the coefficient functions are still evaluated at the
        # projectile's altitude (the model's validity there is C08's business, not the integrator's)
        spec["atmo"] = {"kind": "icao", "alt": draw(st.floats(34500.0, 37500.0))}
        spec["rel"] = draw(st.floats(2.0, 25.0)) * gen.DEG
        spec["look"] = draw(st.sampled_from([0.0, 0.0, 10.0 * gen.DEG]))
    return {"shot": spec, "R": R, "H": H, "config": cfg}


def _rows_at(calc, sh, R):
    rows, err = build.fire(calc, sh, R, R / 3.0)
    if err is not None:
        return None
    out = []
    for k in (1, 2, 3):
        m = k * R / 3.0
        hit = [r for r in rows if abs((r.distance >> D.Foot) - m) <= 1e-6 * m]
        if not hit:
            return None
        r = hit[0]
        out.append({"time": r.time, "height": r.height >> D.Foot, "windage": r.windage >> D.Foot, "speed": r.velocity >> V.FPS})
    return out


def check(case, levels=None):
    r = Res()
    spec, R, H, cfg = case["shot"], case["R"], case["H"], case["config"]
    L = levels or (4 if lib.os.environ.get("VERIF_TIER") == "thorough" else 3)
    vac = spec["atmo"]["kind"] == "vacuum"
    r.label("vacuum" if vac else "air", f"H:{H}")
    if spec.get("zero"):
        r.label("stored-zero!=0" + (":canted" if spec.get("cant") else ""))
    # ---- implementation at L refinement levels
    impl = []
    for j in range(L):
        res = _rows_at(build.calculator(dict(cfg, max_calc_step_size_feet=H / 2 ** j)), build.shot(spec), R)
        if res is None:
            r.label("out-of-domain:range-error")
            return r
        impl.append(res)
    # ---- reference
    sh = build.shot(spec)
    calc = build.calculator(cfg)
    calc._calc._init_trajectory(sh)
    K = calc._calc.drag_by_mach
    rho_c = sh.atmo.get_density_factor_and_mach_for_altitude
    alt0 = sh.atmo.altitude >> D.Foot
    g = cfg.get("cGravityConstant", -32.17405)
    # launch speed by the documented linear powder law (C17), written independently
    mv = spec["mv"]
    pw = spec.get("powder")
    if pw:
        t_pow = sh.atmo.powder_temp >> T.Celsius
        mv = mv * (1 + pw["mod"] * (t_pow - pw["t0_c"]) / 15.0)
    pos, vel = ref_ode.launch_state(mv, spec.get("sh", 0.0) / 12.0, spec.get("look", 0.0), spec.get("zero", 0.0), spec.get("rel", 0.0),
                                    spec.get("cant", 0.0))
    targets = [k * R / 3.0 for k in (1, 2, 3)]
    winds = spec.get("winds") or []
    ukey = lambda u: D.Foot(u).raw_value   # the order of segments is decided on the quantity's base-unit magnitude
    segs = ref_ode.wind_segments(winds, key=ukey)
    dx = 0.5
    if vac:
        ref = {m: ref_ode.vacuum_closed_form(pos, vel, g, m) for m in targets}
        e_ref = {q: 0.0 for q in Q}
        # the RK4 reference itself must reproduce the closed form (validates the reference used for the air cases)
        num = ref_ode.integrate(pos, vel, g, alt0, rho_c, K, segs, targets, dx)
        if not num.get("failed"):
            for m in targets:
                for qi, q in enumerate(Q):
                    if abs(num[m][qi] - ref[m][qi]) > 1e-9 * max(1.0, abs(ref[m][qi])):
                        r.bad("C01:reference-self-check", f"RK4 reference disagrees with the vacuum closed form at {m!r} ft ({q}: {num[m][qi]!r} vs {ref[m][qi]!r}) - harness or Vacuum drag problem")
                        return r
        min_ratio = min(vel[0] / math.sqrt(vel[0] ** 2 + (vel[1] + g * ref[m][0]) ** 2 + vel[2] ** 2) for m in targets)
    else:
        ref = ref_ode.integrate(pos, vel, g, alt0, rho_c, K, segs, targets, dx)
        ref2 = ref_ode.integrate(pos, vel, g, alt0, rho_c, K, segs, targets, dx / 2)
        if ref.get("failed") or ref2.get("failed"):
            r.label("out-of-domain:turns-back")
            return r
        e_ref = {q: max(abs(ref[m][qi] - ref2[m][qi]) for m in targets) for qi, q in enumerate(Q)}
        ref = ref2
        min_ratio = ref["min_vx_ratio"]
    if min_ratio <= 0.2:
        r.label("out-of-domain:steep")
        return r
    # ---- jitter term: one run per wind boundary inside the range, that boundary alone applied one step longer
    J = {m: {q: 0.0 for q in Q} for m in targets}      # isolated boundaries: jitter proportional to the step
    JC = {m: {q: 0.0 for q in Q} for m in targets}     # boundaries closer than 4 steps to another one or to a row: not scaled
    if not vac and winds:
        wmax = max(w[0] for w in winds)
        vmin = min(impl[0][k]["speed"] for k in range(3))
        s0 = (H / 2.0) * (1.0 + wmax / max(vmin - wmax, 1.0)) * 1.05
        order = sorted(range(len(winds)), key=lambda i: ukey(winds[i][2]))
        untils = [winds[i][2] for i in order]
        for pos_i, u in enumerate(untils):
            if u >= R + s0:
                continue
            # rank inside a cluster of boundaries closer than one step (the sock advances one segment per step)
            rank = 1 + sum(1 for pj in range(pos_i) if u - untils[pj] < s0)
            shifts = [0.0] * len(untils)
            shifts[pos_i] = rank * s0
            # keep the order of boundaries: later ones closer than the shift move along
            for pj in range(pos_i + 1, len(untils)):
                if untils[pj] < u + shifts[pos_i]:
                    shifts[pj] = u + shifts[pos_i] - untils[pj]
            segs_s = ref_ode.wind_segments(winds, shifts, key=ukey)
            rs = ref_ode.integrate(pos, vel, g, alt0, rho_c, K, segs_s, targets, dx / 2)
            if rs.get("failed"):
                continue
            # The effect of a late switch is linear in the delay only while the delay is short against the distance to
            # the next boundary and to the row: a segment shorter than a step is applied for a whole step or not at all at
            # every refinement level until the step resolves it (found by targeted search: 0.22-ft segment of 52 fps wind
            # ending on the row).  Such boundaries contribute their level-0 jitter to every level.
            near = any(abs(u - untils[pj]) < 4 * s0 for pj in range(len(untils)) if pj != pos_i) or \
                any(0 <= m_ - u < 4 * s0 for m_ in targets)
            for m in targets:
                for qi, q in enumerate(Q):
                    (JC if near else J)[m][q] += abs(rs[m][qi] - ref[m][qi])
    # ---- the bound
    worst = 0.0
    for ti, m in enumerate(targets):
        for qi, q in enumerate(Q):
            Dq = max((2 ** k) * abs(impl[k][ti][q] - impl[k + 1][ti][q]) for k in range(L - 1))
            for j in range(L):
                err = abs(impl[j][ti][q] - ref[m][qi])
                tol = (KD * Dq + KJ * J[m][q]) / 2 ** j + KJ * JC[m][q] + 4 * e_ref[q] + FLOOR[q] * max(1.0, abs(ref[m][qi]) * 1e-3)
                worst = max(worst, err / tol)
                if err > tol:
                    which = "vacuum-closed-form" if vac else "point-mass-model"
                    r.bad(f"C01:{which}:{q}", f"{q} at {m!r} ft with step {H / 2 ** j!r} ft: solver {impl[j][ti][q]!r}, reference {ref[m][qi]!r}; error {err:.3e} exceeds "
                          f"{tol:.3e} = ({KD} x first-order estimate {Dq:.3e} + {KJ} x wind-switch jitter {J[m][q]:.3e}) / {2 ** j} + {KJ} x unresolved-segment jitter {JC[m][q]:.3e} + 4 x {e_ref[q]:.1e} + floor",
                          level=j, D=Dq, J=J[m][q])
                    r.target = worst
                    return r
    r.target = worst
    r.info["worst_ratio"] = worst
    inside = [w for w in winds if w[0] > 1.0 and w[2] < R]
    dy = max(abs(ref[m][1] - pos[1]) for m in targets)
    r.nontrivial = bool(inside) or abs(spec.get("look", 0.0)) > gen.DEG or abs(spec.get("cant", 0.0)) > gen.DEG or dy > 30.0 \
        or not isinstance(spec["table"], str) or bool(pw)
    for name, cond in (("wind-inside", bool(inside)), ("look", abs(spec.get("look", 0.0)) > gen.DEG), ("cant", abs(spec.get("cant", 0.0)) > gen.DEG),
                       ("altitude-change>30ft", dy > 30.0), ("custom-table", not isinstance(spec["table"], str)), ("powder", bool(pw)),
                       ("multi-bc", bool(spec.get("mbc")))):
        if cond:
            r.label(name)
    r.label("in-domain")
    return r


def parts(tier):
    th = tier == "thorough"
    return [
        Part("air", strategy=_case(False, th), check=check, n={"quick": 420, "thorough": 6000}),
        Part("vacuum", strategy=_case(True, th), check=check, n={"quick": 400, "thorough": 5000}),
    ]


MANIFEST = {
    "technique": "Hypothesis-generated shots against a reference model (RK4 in x written from the statement; closed-form parabola in vacuum) with a self-calibrating first-order bound measured by refining the solver step",
    "text": "time, height, windage and speed at R/3, 2R/3, R from the solver at steps H, H/2, H/4(, H/8) stay within (4 x measured first-order error + 2 x wind-switch jitter)/2^j + reference error of an independent RK4 solution of the stated equations "
            "(initial state, wind segments, gravity, powder law written independently; density / sound speed / drag used as black boxes), for H in {0.25,0.5,1,2}; vacuum cases against the closed-form parabola. Exploration level.",
    "note": "model errors do not shrink with the step, so they are flagged once they exceed ~1/8 of the level-0 discretisation error; compensating errors in solver and coefficient functions are out of reach (C08/C09 cover the latter)",
}
