"""C07 - Preferred units only choose how bare numbers and output are read."""
import math
from hypothesis import strategies as st

from .. import lib, ref, gen, build
from ..core import Part, Res

pb = lib.pb
Unit = pb.Unit
D, A, V, T, P, W = pb.Distance, pb.Angular, pb.Velocity, pb.Temperature, pb.Pressure, pb.Weight

ID = "C07"
RULE = ("configurations = independent draws of each of the 15 preferred-unit slots from the units of its dimension (plus the "
        "defaults and the three shipped presets); (A) a full explicit-unit scenario (multi-BC model from velocity points, "
        "calibrated powder-sensitive ammo, atmosphere, winds, SFP sight, zeroing, fire plain/extra/default step, danger space, "
        "clicks, velocity for temperature, global step set with a quantity) run under two configurations; (B) every public "
        "float-or-quantity parameter (42 entries) built from a bare number and from the explicit quantity in the slot's unit, "
        "values from {0, -0.0, negative, small, large}; non-trivial = (A) configurations differing in >= 3 slots, (B) value "
        "0 / negative or slot unit different from the dimension's base unit; distinct = distinct case dicts; every bare number is passed "
        "a second time under a second generated configuration")
ASSUMPTIONS = ["raw values compared bit-for-bit in (A); in (B) all fields of the built object / the call's result, or the exception type",
               "documented ambiguity not asserted: danger_space(target_height=<bare>) may be read in the distance or the target_height slot",
               "fire(trajectory_step=0) is the documented 'not given' default of that signature and is not a bare-zero case"]

SLOT_DIM = {"angular": "angular", "adjustment": "angular", "distance": "distance", "diameter": "distance", "length": "distance",
            "drop": "distance", "sight_height": "distance", "target_height": "distance", "twist": "distance", "velocity": "velocity",
            "pressure": "pressure", "temperature": "temperature", "weight": "weight", "ogw": "weight", "energy": "energy"}
SLOTS = list(SLOT_DIM)


def _config():
    gen_cfg = st.fixed_dictionaries({s: st.sampled_from(ref.UNITS_BY_DIM[d]) for s, d in SLOT_DIM.items()})
    return st.one_of(gen_cfg, gen_cfg, gen_cfg, st.sampled_from(["defaults", "imperial", "metric", "mixed"]))


def _apply(cfg):
    pb.PreferredUnits.defaults()
    if cfg == "defaults":
        return
    if cfg == "imperial":
        pb.loadImperialUnits()
    elif cfg == "metric":
        pb.loadMetricUnits()
    elif cfg == "mixed":
        pb.loadMixedUnits()
    else:
        for s, u in cfg.items():
            setattr(pb.PreferredUnits, s, Unit[u])
    pb.reset_globals()


def _current():
    return {s: getattr(pb.PreferredUnits, s).name for s in SLOTS}


# ======================================================================================================= (A)
@st.composite
def _scenario(draw):
    def q(dim, lo, hi):
        u = draw(st.sampled_from(ref.UNITS_BY_DIM[dim]))
        if dim == "temperature" and draw(st.integers(0, 3)) == 0:
            # a quantity that reads exactly 0 on its scale (0 C, 0 F) is a value like any other
            u = draw(st.sampled_from(["Celsius", "Fahrenheit"]))
            return [ref.to_si(0.0, u), u, "exact-zero"]
        return [draw(st.floats(lo, hi)), u]   # value is in SI, expressed in unit u at build time
    return {
        "P": draw(_config()), "Q": draw(_config()),
        "bc": [draw(st.floats(0.2, 0.5)), draw(st.floats(0.2, 0.5)), draw(st.floats(0.2, 0.5))],
        "v_pts": [q("velocity", 700.0, 900.0), q("velocity", 450.0, 650.0)], "mach_pt": draw(st.floats(0.8, 1.3)),
        "weight": q("weight", 0.006, 0.02), "diameter": q("distance", 0.006, 0.009), "length": q("distance", 0.025, 0.04),
        "mv": q("velocity", 700.0, 900.0), "powder_temp": q("temperature", 270.0, 300.0),
        "v1": draw(st.floats(-30.0, 30.0).filter(lambda x: abs(x) > 2)), "t1": draw(st.floats(-25.0, 25.0).filter(lambda x: abs(x) > 2)),
        "alt": q("distance", 0.0, 2000.0), "press": q("pressure", 80000.0, 103000.0), "temp": q("temperature", 260.0, 305.0),
        "hum": draw(st.floats(0.0, 100.0)), "powder_t": q("temperature", 265.0, 305.0),
        "wind": [q("velocity", 0.0, 12.0), q("angular", 0.0, 6.0), q("distance", 100.0, 900.0)],
        "wind2": [q("velocity", 0.0, 12.0), q("angular", 0.0, 6.0), q("distance", 50.0, 400.0)],
        "wind3": [q("velocity", 0.0, 12.0), q("angular", 0.0, 6.0), q("distance", 50.0, 400.0)],
        # history: the settings in force may change while the inputs are being built (run 1 only)
        "M": draw(_config()), "switch_at": draw(st.integers(0, 6)),
        "sh": q("distance", 0.03, 0.1), "twist": q("distance", 0.2, 0.35),
        "calib": q("distance", 50.0, 200.0), "hclick": q("angular", 5e-5, 3e-4), "vclick": q("angular", 5e-5, 3e-4),
        "look": q("angular", 0.0, 0.2), "rel": q("angular", 0.0, 0.003), "cant": q("angular", 0.0, 0.1),
        "zero_d": q("distance", 80.0, 300.0), "range": q("distance", 300.0, 600.0), "nstep": draw(st.integers(4, 12)),
        "ds_at": draw(st.floats(0.2, 0.9)), "ds_h": q("distance", 0.2, 1.0), "ds_look": q("angular", 0.0, 0.2),
        "mag": draw(st.floats(1.0, 25.0)), "adj": [q("angular", 1e-4, 5e-3), q("angular", 1e-4, 5e-3)],
        "qtemp": q("temperature", 250.0, 310.0), "gstep": q("distance", 0.1, 0.6),
    }


def _mk(pair):
    si, u = pair[0], pair[1]
    if len(pair) > 2:
        return Unit[u](0.0)
    return Unit[u](ref.from_si(si, u))


def _run_scenario(c, switch=None):
    """switch = (index, config): at that construction step the preferred units are switched to config"""
    out = []
    step_no = [0]

    def tick():
        if switch is not None and step_no[0] == switch[0]:
            _apply(switch[1])
        step_no[0] += 1

    tick()
    pts = [pb.BCPoint(c["bc"][0], V=_mk(c["v_pts"][0])), pb.BCPoint(c["bc"][1], V=_mk(c["v_pts"][1])), pb.BCPoint(c["bc"][2], Mach=c["mach_pt"])]
    dm = pb.DragModelMultiBC(pts, pb.TableG7, _mk(c["weight"]), _mk(c["diameter"]), _mk(c["length"]))
    out.append(("dm", dm.BC, dm.weight.raw_value, dm.diameter.raw_value, dm.length.raw_value, tuple((p.Mach, p.CD) for p in dm.drag_table)))
    ammo = pb.Ammo(dm, _mk(c["mv"]), _mk(c["powder_temp"]), use_powder_sensitivity=True)
    v0, t0 = ammo.mv >> V.MPS, ammo.powder_temp >> T.Celsius
    out.append(("sens", ammo.calc_powder_sens(V.MPS(v0 + c["v1"]), T.Celsius(t0 + c["t1"]))))
    atmo = pb.Atmo(_mk(c["alt"]), _mk(c["press"]), _mk(c["temp"]), c["hum"], _mk(c["powder_t"]))
    out.append(("atmo", atmo.density_ratio, atmo._mach, atmo.altitude.raw_value, atmo.pressure.raw_value, atmo.temperature.raw_value))
    tick()
    wind = pb.Wind(_mk(c["wind"][0]), _mk(c["wind"][1]), _mk(c["wind"][2]))
    tick()
    wind2 = pb.Wind(_mk(c["wind2"][0]), _mk(c["wind2"][1]), _mk(c["wind2"][2]))
    tick()
    wind3 = pb.Wind(_mk(c["wind3"][0]), _mk(c["wind3"][1]), _mk(c["wind3"][2]))
    tick()
    sight = pb.Sight("SFP", _mk(c["calib"]), _mk(c["hclick"]), _mk(c["vclick"]))
    weapon = pb.Weapon(_mk(c["sh"]), _mk(c["twist"]), sight=sight)
    tick()
    shot = pb.Shot(weapon, ammo, _mk(c["look"]), _mk(c["rel"]), _mk(c["cant"]), atmo, [wind, wind2, wind3])
    out.append(("wind-order", tuple(w.until_distance.raw_value for w in shot.winds)))
    tick()
    calc = pb.Calculator()
    try:
        z = calc.set_weapon_zero(shot, _mk(c["zero_d"]))
        out.append(("zero", z.raw_value))
    except (pb.ZeroFindingError, pb.RangeError) as e:
        out.append(("zero-raises", type(e).__name__))
    # (quantities are rebuilt from the case for every call: the library may re-display a quantity it is handed)
    rng = _mk(c["range"])
    step = _mk([c["range"][0] / c["nstep"], c["range"][1]])
    for kw in ({"trajectory_step": step, "extra_data": True}, {"trajectory_step": step}, {}):
        try:
            hit = calc.fire(shot, _mk(c["range"]), **kw)
            rows = hit.trajectory
        except pb.RangeError as e:
            rows = e.incomplete_trajectory
            hit = pb.HitResult(shot, rows, True)
        out.append(("rows", tuple(build.rows_raw(rows))))
        if kw.get("extra_data"):
            try:
                ds = hit.danger_space(_mk([c["range"][0] * c["ds_at"], c["range"][1]]), _mk(c["ds_h"]), _mk(c["ds_look"]))
                out.append(("danger", ds.begin.distance.raw_value, ds.end.distance.raw_value, ds.at_range.distance.raw_value,
                            ds.target_height.raw_value, ds.look_angle.raw_value))
            except ArithmeticError as e:
                out.append(("danger-raises", type(e).__name__))
            row = rows[min(len(rows) - 1, 3)]
            out.append(("clicks-row", tuple(sight.get_trajectory_adjustment(row, c["mag"]))))
    out.append(("clicks", tuple(sight.get_adjustment(_mk(c["zero_d"]), _mk(c["adj"][0]), _mk(c["adj"][1]), c["mag"]))))
    out.append(("v-temp", ammo.get_velocity_for_temp(_mk(c["qtemp"])).raw_value))
    pb.set_global_max_calc_step_size(_mk(c["gstep"]))
    out.append(("gstep", pb.get_global_max_calc_step_size().raw_value))
    pb.reset_globals()
    return out


def check_explicit(case):
    r = Res()
    case = dict(case)
    case.setdefault("wind2", case["wind"])     # (older corpus files predate the additional winds)
    case.setdefault("wind3", case["wind"])
    case.setdefault("M", None)
    case.setdefault("switch_at", 0)
    results = []
    cfgs = []
    for name in ("P", "Q"):
        _apply(case[name])
        cfgs.append(_current())
        sw = (case["switch_at"], case["M"]) if (name == "P" and case.get("M") is not None) else None
        results.append(_run_scenario(case, sw))
        lib.reset_state()
    ndiff = sum(1 for s in SLOTS if cfgs[0][s] != cfgs[1][s])
    for (ka, *va), (kb, *vb) in zip(*results):
        if ka != kb or va != vb:
            detail = ""
            if ka == kb == "rows":
                ra, rb = va[0], vb[0]
                for i, (x, y) in enumerate(zip(ra, rb)):
                    if x != y:
                        j = next(j for j in range(len(x)) if x[j] != y[j])
                        detail = f"row {i} column {(build.NUM_COLS + ('flag',))[j]}: {x[j]!r} vs {y[j]!r}"
                        break
                else:
                    detail = f"{len(ra)} vs {len(rb)} rows"
            key = {"clicks": "C07:explicit-depends-on:Sight.SFP-step", "clicks-row": "C07:explicit-depends-on:Sight.SFP-step"}.get(
                ka, f"C07:explicit-depends-on:{ka}")
            differing = {s: (cfgs[0][s], cfgs[1][s]) for s in SLOTS if cfgs[0][s] != cfgs[1][s]}
            r.bad(key, f"explicit-unit scenario: result '{ka}' differs between two preferred-unit configurations "
                  f"({detail or str(va)[:120] + ' vs ' + str(vb)[:120]}); differing slots {differing}")
            break
    r.nontrivial = ndiff >= 3
    r.label(f"slots-differ:{'0-2' if ndiff < 3 else '3-8' if ndiff <= 8 else '9+'}")
    return r


# ======================================================================================================= (B)
def _snap(o):
    """raw snapshot of a library object / result for equality comparison"""
    if isinstance(o, pb.AbstractDimension):
        return ("q", type(o).__name__, o.raw_value)
    if isinstance(o, pb.Atmo):
        return ("atmo", type(o).__name__, o.altitude.raw_value, o.pressure.raw_value, o.temperature.raw_value, o.powder_temp.raw_value,
                o.humidity, o.density_ratio, o._mach)
    if isinstance(o, pb.Wind):
        return ("wind", o.velocity.raw_value, o.direction_from.raw_value, o.until_distance.raw_value, o.MAX_DISTANCE_FEET)
    if isinstance(o, pb.Shot):
        return ("shot", o.look_angle.raw_value, o.relative_angle.raw_value, o.cant_angle.raw_value)
    if isinstance(o, pb.Weapon):
        return ("weapon", o.sight_height.raw_value, o.twist.raw_value, o.zero_elevation.raw_value)
    if isinstance(o, pb.Ammo):
        return ("ammo", o.mv.raw_value, o.powder_temp.raw_value, o.temp_modifier)
    if isinstance(o, pb.Sight):
        return ("sight", o.scale_factor.raw_value, o.h_click_size.raw_value, o.v_click_size.raw_value)
    if isinstance(o, pb.DragModel):
        return ("dm", o.BC, o.weight.raw_value, o.diameter.raw_value, o.length.raw_value, tuple((p.Mach, p.CD) for p in o.drag_table),
                getattr(o, "sectional_density", None))
    if isinstance(o, pb.BCPoint):
        return ("bcp", o.BC, o.Mach, o.V.raw_value)
    if isinstance(o, pb.HitResult):
        return ("hit", tuple(build.rows_raw(o.trajectory)))
    if isinstance(o, pb.DangerSpace):
        return ("ds", o.begin.distance.raw_value, o.end.distance.raw_value, o.at_range.distance.raw_value, o.look_angle.raw_value)
    if isinstance(o, tuple):
        return tuple(_snap(x) for x in o)
    return o


def _base_shot():
    dm = pb.DragModel(0.3, pb.TableG7, W.Grain(168), D.Inch(0.308), D.Inch(1.2))
    return pb.Shot(pb.Weapon(D.Inch(2), D.Inch(10)), pb.Ammo(dm, V.FPS(2600)))


_HIT = {}


def _hit():
    if "h" not in _HIT:
        _HIT["h"] = pb.Calculator().fire(_base_shot(), D.Foot(900), D.Foot(30), extra_data=True)
    return _HIT["h"]


def _units_now():
    return tuple(str(getattr(pb.PreferredUnits, f)) for f in sorted(SLOT_DIM))


DM = lambda: pb.DragModel(0.3, pb.TableG7)  # noqa: E731

# name -> (slot, kind of value, builder)
PARAMS = {
    "Atmo.altitude": ("distance", "alt", lambda x: pb.Atmo(altitude=x)),
    "Atmo.pressure": ("pressure", "press", lambda x: pb.Atmo(pressure=x)),
    "Atmo.temperature": ("temperature", "temp", lambda x: pb.Atmo(temperature=x)),
    "Atmo.powder_t": ("temperature", "temp", lambda x: pb.Atmo(powder_t=x)),
    "Vacuum.altitude": ("distance", "alt", lambda x: pb.Vacuum(altitude=x)),
    "Vacuum.temperature": ("temperature", "temp", lambda x: pb.Vacuum(temperature=x)),
    "Atmo.icao.altitude": ("distance", "alt", lambda x: pb.Atmo.icao(x)),
    "Wind.velocity": ("velocity", "any", lambda x: pb.Wind(x, A.Degree(90), D.Foot(100))),
    "Wind.direction_from": ("angular", "angle", lambda x: pb.Wind(V.FPS(5), x, D.Foot(100))),
    "Wind.until_distance": ("distance", "any", lambda x: pb.Wind(V.FPS(5), A.Degree(90), x)),
    "Shot.look_angle": ("angular", "angle", lambda x: pb.Shot(pb.Weapon(), pb.Ammo(DM(), V.FPS(2600)), look_angle=x)),
    "Shot.relative_angle": ("angular", "angle", lambda x: pb.Shot(pb.Weapon(), pb.Ammo(DM(), V.FPS(2600)), relative_angle=x)),
    "Shot.cant_angle": ("angular", "angle", lambda x: pb.Shot(pb.Weapon(), pb.Ammo(DM(), V.FPS(2600)), cant_angle=x)),
    "Weapon.sight_height": ("sight_height", "any", lambda x: pb.Weapon(sight_height=x)),
    "Weapon.twist": ("twist", "any", lambda x: pb.Weapon(twist=x)),
    "Weapon.zero_elevation": ("angular", "angle", lambda x: pb.Weapon(zero_elevation=x)),
    "Ammo.mv": ("velocity", "any", lambda x: pb.Ammo(DM(), x)),
    "Ammo.powder_temp": ("temperature", "temp", lambda x: pb.Ammo(DM(), V.FPS(2600), powder_temp=x)),
    "Ammo.calc_powder_sens.other_velocity": ("velocity", "pos", lambda x: pb.Ammo(DM(), V.MPS(800), T.Celsius(15)).calc_powder_sens(x, T.Celsius(0))),
    "Ammo.calc_powder_sens.other_temperature": ("temperature", "temp", lambda x: pb.Ammo(DM(), V.MPS(800), T.Celsius(15)).calc_powder_sens(V.MPS(780), x)),
    "Ammo.get_velocity_for_temp": ("temperature", "temp", lambda x: pb.Ammo(DM(), V.MPS(800), T.Celsius(15), 0.02, True).get_velocity_for_temp(x)),
    "Sight.scale_factor": ("distance", "any", lambda x: pb.Sight("SFP", x, A.Mil(0.1), A.Mil(0.1))),
    "Sight.h_click_size": ("adjustment", "angle", lambda x: pb.Sight("FFP", None, x, A.Mil(0.1))),
    "Sight.v_click_size": ("adjustment", "angle", lambda x: pb.Sight("FFP", None, A.Mil(0.1), x)),
    "Sight.get_adjustment.target_distance": ("distance", "pos", lambda x: tuple(pb.Sight("SFP", D.Meter(100), A.Mil(0.1), A.Mil(0.2)).get_adjustment(x, A.Mil(1), A.Mil(2), 10))),
    "DragModel.weight": ("weight", "any", lambda x: pb.DragModel(0.3, pb.TableG7, x, D.Inch(0.3), D.Inch(1))),
    "DragModel.diameter": ("diameter", "any", lambda x: pb.DragModel(0.3, pb.TableG7, W.Grain(150), x, D.Inch(1))),
    "DragModel.length": ("length", "any", lambda x: pb.DragModel(0.3, pb.TableG7, W.Grain(150), D.Inch(0.3), x)),
    "DragModelMultiBC.weight": ("weight", "any", lambda x: pb.DragModelMultiBC([pb.BCPoint(0.3, Mach=1.0)], pb.TableG7, x, D.Inch(0.3), D.Inch(1))),
    "DragModelMultiBC.diameter": ("diameter", "any", lambda x: pb.DragModelMultiBC([pb.BCPoint(0.3, Mach=1.0)], pb.TableG7, W.Grain(150), x, D.Inch(1))),
    "DragModelMultiBC.length": ("length", "any", lambda x: pb.DragModelMultiBC([pb.BCPoint(0.3, Mach=1.0)], pb.TableG7, W.Grain(150), D.Inch(0.3), x)),
    "BCPoint.V": ("velocity", "any", lambda x: pb.BCPoint(0.3, V=x)),
    "Calculator.barrel_elevation_for_target.target_distance": ("distance", "range", lambda x: pb.Calculator().barrel_elevation_for_target(_base_shot(), x)),
    "Calculator.set_weapon_zero.zero_distance": ("distance", "range", lambda x: pb.Calculator().set_weapon_zero(_base_shot(), x)),
    "Calculator.fire.trajectory_range": ("distance", "range", lambda x: pb.Calculator().fire(_base_shot(), x, D.Foot(50))),
    "Calculator.fire.trajectory_step": ("distance", "step", lambda x: pb.Calculator().fire(_base_shot(), D.Foot(300), x)),
    "HitResult.danger_space.at_range": ("distance", "range", lambda x: _hit().danger_space(x, D.Inch(20))),
    "HitResult.danger_space.look_angle": ("angular", "angle", lambda x: _hit().danger_space(D.Foot(400), D.Inch(20), x)),
    "basicConfig.max_calc_step_size": ("distance", "gstep", lambda x: (pb.basicConfig(max_calc_step_size=x), pb.get_global_max_calc_step_size(),
                                                                       _units_now())[1:]),
    "set_global_max_calc_step_size": ("distance", "gstep", lambda x: (pb.set_global_max_calc_step_size(x), pb.get_global_max_calc_step_size())[1]),
}
PARAM_NAMES = sorted(PARAMS)


def _value(draw, kind, unit):
    """a value in `unit` of the requested kind; zero and negatives over-weighted"""
    special = draw(st.sampled_from(["zero", "zero", "negzero", "neg", "small", "typical", "typical", "large"]))
    dim = ref.DIMENSION[unit]
    if special == "zero" and kind != "step":
        return 0.0
    if special == "negzero" and kind != "step":
        return -0.0
    if special in ("zero", "negzero"):
        special = "typical"
    mag = {"small": draw(st.floats(1e-4, 1e-2)), "typical": draw(st.floats(0.1, 40.0)), "large": draw(st.floats(40.0, 400.0)),
           "neg": -draw(st.floats(0.1, 40.0))}[special]
    if kind == "angle":
        # any magnitude, also beyond one turn (the constructor's wrap applies to bare and explicit numbers alike)
        return mag * draw(st.sampled_from([1.0, 1.0, 10.0]))
    # (trajectory_step=0 is that signature's documented "not given" default: no zero for kind "step")
    if kind in ("range", "step", "gstep"):
        ft = {"range": abs(mag) * 15.0 + 30.0, "step": abs(mag) * 2.0 + 5.0, "gstep": abs(mag) / 40.0 + 0.1}[kind]
        val = ref.convert(ft, "Foot", unit)
        return -val if special == "neg" and kind != "step" else val
    if kind == "temp" and draw(st.booleans()):
        # numbers that are a library default or a fixed point *in some other temperature unit* (15 C = 59 F = 288.15 K =
        # 518.67 R, freezing, -40): a bare number must not be recognised by its value before it is read in the preferred unit
        return draw(st.sampled_from([59.0, 59.0, 15.0, 15.0, 288.15, 518.67, 32.0, 273.15, 491.67, -40.0, 0.0]))
    if kind == "temp":
        k = 273.15 + mag if special != "neg" else 273.15 + mag
        return ref.from_si(max(200.0, min(330.0, k)), unit) if draw(st.booleans()) else mag
    if kind == "press":
        return ref.from_si(abs(mag) * 2000.0 + 20000.0, unit) if special != "neg" else mag
    if kind == "alt":
        return ref.convert(mag * 100.0, "Foot", unit)
    if kind == "pos":
        return ref.convert(abs(mag) * 20.0 + 100.0, {"velocity": "MPS", "distance": "Meter"}[dim], unit)
    return mag


@st.composite
def _bare_case(draw):
    name = draw(st.sampled_from(PARAM_NAMES))
    slot, kind, _ = PARAMS[name]
    cfg = draw(_config())
    if isinstance(cfg, dict):
        unit = cfg[slot]
    else:
        unit = None  # resolved at run time from the preset
    if unit is None:
        unit_for_value = {"defaults": None}.get(cfg)
        unit_guess = ref.UNITS_BY_DIM[SLOT_DIM[slot]][0]
    else:
        unit_guess = unit
    # the same bare number is then passed again under a second set of preferences (it means something else there)
    return {"param": name, "config": cfg, "x": _value(draw, kind, unit_guess), "config2": draw(_config())}


def _call(fn, x):
    try:
        return ("ok", _snap(fn(x)))
    except Exception as e:  # noqa
        return ("raises", type(e).__name__)


def check_bare(case):
    r = Res()
    name, x = case["param"], case["x"]
    slot, kind, fn = PARAMS[name]
    _apply(case["config"])
    unit = getattr(pb.PreferredUnits, slot)
    r.label(name)
    bare = _call(fn, x)
    pb.reset_globals()
    explicit = _call(fn, unit(x))
    pb.reset_globals()
    if bare != explicit:
        zero = (x == 0)
        site = name
        for a, b in (("Vacuum.temperature", "Atmo.temperature"),):
            if name == a:
                site = b
        key = f"C07:bare-zero:{site}" if zero else f"C07:bare-number:{name}"
        r.bad(key, f"{name}={x!r} under {slot}={unit.name}: bare number gives {str(bare)[:160]}, explicit {unit.name}({x!r}) gives {str(explicit)[:160]}")
    if case.get("config2") is not None and not r.violations:
        _apply(case["config2"])
        unit2 = getattr(pb.PreferredUnits, slot)
        bare2 = _call(fn, x)
        pb.reset_globals()
        explicit2 = _call(fn, unit2(x))
        pb.reset_globals()
        if unit2 is not unit:
            r.label("same-number-under-two-preferences")
        if bare2 != explicit2:
            r.bad(f"C07:bare-number:{name}:second-preference", f"{name}={x!r} first passed under {slot}={unit.name}, then under {slot}={unit2.name}: "
                  f"the bare number now gives {str(bare2)[:160]}, explicit {unit2.name}({x!r}) gives {str(explicit2)[:160]}")
    base_unit = {"angular": "Radian", "distance": "Inch", "velocity": "MPS", "pressure": "MmHg", "temperature": "Fahrenheit",
                 "weight": "Grain", "energy": "FootPound"}[SLOT_DIM[slot]]
    r.nontrivial = x == 0 or x < 0 or unit.name != base_unit
    if x == 0:
        r.label("zero")
    return r


# documented ambiguity: danger_space target_height may be read in either slot
@st.composite
def _th_case(draw):
    return {"config": draw(_config()), "x": draw(st.one_of(st.just(0.0), st.floats(0.1, 60.0)))}


def check_target_height(case):
    r = Res()
    _apply(case["config"])
    x = case["x"]
    cands = [getattr(pb.PreferredUnits, "distance"), getattr(pb.PreferredUnits, "target_height")]
    bare = _call(lambda v: _hit().danger_space(D.Foot(400), v), x)
    if not any(bare == _call(lambda v: _hit().danger_space(D.Foot(400), v), u(x)) for u in cands):
        r.bad("C07:bare-number:HitResult.danger_space.target_height", f"target_height={x!r}: bare number matches neither the distance nor the target_height slot reading")
    r.nontrivial = True
    return r


def parts(tier):
    return [
        Part("explicit", strategy=_scenario(), check=check_explicit, n={"quick": 400, "thorough": 8000}),
        Part("bare", strategy=_bare_case(), check=check_bare, n={"quick": 12000, "thorough": 300000}),
        Part("target-height", strategy=_th_case(), check=check_target_height, n={"quick": 300, "thorough": 5000}),
    ]


MANIFEST = {
    "technique": "Hypothesis-generated preferred-unit configurations; differential of a full explicit-unit scenario across two configurations (bit-identical raw results); bare-number vs explicit-quantity equivalence for every float-or-quantity parameter",
    "text": "(A) zero angle, all rows (plain/extra/default step), danger space, clicks, velocities, global step of an explicit-unit scenario are bit-identical under any two of the generated slot assignments / presets; "
            "(B) for each of 40 public parameters a bare number (0, -0.0, negative, small, large) builds the same object / gives the same result / raises the same exception type as the explicit quantity in the slot's unit. Exploration level.",
    "note": "parameter -> slot table taken from the documentation (slot named after the parameter kind); danger_space target_height ambiguity accepted either way",
}
