"""C20 - Trajectory look-ups return the first row satisfying the query."""
import math
from fractions import Fraction
from hypothesis import strategies as st

from .. import lib, ref
from ..core import Part, Res

pb = lib.pb
Unit = pb.Unit
import py_ballisticcalc.helpers as H  # noqa: E402  (after lib put the tree under test on sys.path)

ID = "C20"
RULE = ("synthetic trajectories of 0..60 rows with generated non-decreasing distances and times (repeats included), "
        "arbitrary or strictly single-peaked heights, arbitrary speeds and flags; 10 queries per trajectory placed "
        "below / exactly on / between / beyond recorded values in any of the 10 distance units; plus real fire() "
        "trajectories; non-trivial = >= 3 rows and at least one query strictly inside the recorded span; distinct = "
        "distinct (rows, queries) dicts; queries also NaN and +-inf (no row is at least NaN)")
ASSUMPTIONS = ["reference = sequential scan with the same comparison predicate (`value >= query` in the query's unit)",
               "negative times / deviations are rejected by the code and not part of the statement",
               "which of several equal-time duplicates the nearest-time look-up returns is not asserted",
               "nearest-time: the returned row must attain the minimum of the float differences; the earlier-on-tie rule is "
               "asserted only for ties that are exact in rational arithmetic"]

DIST = ref.UNITS_BY_DIM["distance"]


@st.composite
def _traj(draw):
    n = draw(st.one_of(st.integers(0, 4), st.integers(0, 60)))
    rows = []
    d = 0.0
    t = 0.0
    peaked = draw(st.booleans())
    peak = draw(st.integers(0, max(0, n - 1))) if n else 0
    h = draw(st.floats(-10.0, 10.0))
    # (distances stay non-decreasing: the statement quantifies over such trajectories, and the helpers bisect on that order)
    for i in range(n):
        if i:
            d += draw(st.one_of(st.just(0.0), st.floats(0.0, 500.0), st.sampled_from([1.0, 100.0, 300.0])))
            t += draw(st.one_of(st.just(0.0), st.floats(0.0, 2.0), st.sampled_from([0.5, 0.25, 1.0])))
            if peaked:
                dh = draw(st.floats(1e-3, 50.0))
                h = h + dh if i <= peak else h - dh
            else:
                h = draw(st.floats(-100.0, 100.0))
        rows.append([d, t, h, draw(st.floats(50.0, 4000.0)), draw(st.sampled_from([8, 8, 8, 0, 1, 2, 4, 9, 10, 12]))])
    qs = []
    for _ in range(10):
        kind = draw(st.sampled_from(["dist", "dist", "time", "time-near", "time-near", "vel", "flag"]))
        if kind == "dist":
            u = draw(st.sampled_from(DIST))
            mode = draw(st.sampled_from(["on", "on", "between", "between", "below", "below", "beyond", "beyond", "any", "any", "nonfinite"]))
            if mode == "nonfinite":
                # no row is "at least" NaN, every row is at least -inf, none reaches +inf (written as strings: plain JSON)
                q = {"kind": "dist", "unit": u, "ft": draw(st.sampled_from(["nan", "nan", "inf", "-inf"]))}
            elif n and mode == "on":
                i = draw(st.integers(0, n - 1))
                q = {"kind": "dist", "unit": u, "on": i, "ft_on": rows[i][0]}
            elif n and mode == "between":
                i = draw(st.integers(0, n - 1))
                f = draw(st.floats(0.0, 1.0))
                j = min(n - 1, i + 1)
                q = {"kind": "dist", "unit": u, "ft": rows[i][0] + f * (rows[j][0] - rows[i][0])}
            elif mode == "below":
                q = {"kind": "dist", "unit": u, "ft": draw(st.floats(-100.0, 0.0))}
            elif mode == "beyond":
                q = {"kind": "dist", "unit": u, "ft": d + draw(st.floats(1e-9, 1000.0))}
            else:
                q = {"kind": "dist", "unit": u, "ft": draw(st.floats(0.0, max(1.0, d * 1.2)))}
        elif kind in ("time", "time-near"):
            mode = draw(st.sampled_from(["on", "mid", "between", "beyond", "any"]))
            if n and mode == "on":
                tq = rows[draw(st.integers(0, n - 1))][1]
            elif n and mode == "mid":  # exact midpoint -> tie between earlier and later row
                i = draw(st.integers(0, n - 1))
                j = min(n - 1, i + 1)
                tq = (rows[i][1] + rows[j][1]) / 2
            elif n and mode == "between":
                i = draw(st.integers(0, n - 1))
                j = min(n - 1, i + 1)
                tq = rows[i][1] + draw(st.floats(0.0, 1.0)) * (rows[j][1] - rows[i][1])
            elif mode == "beyond":
                tq = t + draw(st.floats(1e-9, 20.0))
            else:
                tq = draw(st.floats(0.0, max(1.0, t * 1.2)))
            q = {"kind": kind, "t": tq}
            if kind == "time" and draw(st.integers(0, 11)) == 0:
                q["t"] = draw(st.sampled_from(["nan", "inf"]))
            if kind == "time-near":
                q["dev"] = draw(st.one_of(st.sampled_from([0.0, 1.0, 0.5, 0.25]), st.floats(0.0, 10.0)))
        elif kind == "vel":
            q = {"kind": "vel", "v": draw(st.floats(0.0, 4100.0)), "unit": draw(st.sampled_from(ref.UNITS_BY_DIM["velocity"]))}
        else:
            q = {"kind": "flag", "flag": draw(st.sampled_from([1, 2, 4, 8, 3]))}
        qs.append(q)
    # history: in-place edits of the result's row list between look-ups on the same HitResult object
    edits = []
    for _ in range(draw(st.integers(0, 2))):
        k = draw(st.sampled_from(["truncate", "drop-head", "extend", "clear"]))
        edits.append([k, draw(st.integers(0, 60)), draw(st.floats(0.0, 300.0)), draw(st.floats(0.0, 1.0))])
    return {"rows": rows, "queries": qs, "peaked": peaked, "peak": peak, "edits": edits}


_SHOT = None


def _shot():
    global _SHOT
    if _SHOT is None:
        _SHOT = pb.Shot(pb.Weapon(pb.Distance.Inch(2)), pb.Ammo(pb.DragModel(0.3, pb.TableG7), pb.Velocity.FPS(2600)))
    return _SHOT


def _mk_rows(rows):
    TD = pb.TrajectoryData
    z = pb.Distance.Foot(0)
    a = pb.Angular.Radian(0)
    out = []
    for d, t, h, v, fl in rows:
        out.append(TD(time=t, distance=pb.Distance.Foot(d), velocity=pb.Velocity.FPS(v), mach=v / 1116.0,
                      height=pb.Distance.Foot(h), target_drop=pb.Distance.Foot(h), drop_adj=a, windage=z, windage_adj=a,
                      look_distance=pb.Distance.Foot(d), angle=a, density_factor=0.0, drag=0.0,
                      energy=pb.Energy.FootPound(0), ogw=pb.Weight.Pound(0), flag=fl))
    return out


def _first(pred, rows):
    for i, row in enumerate(rows):
        if pred(row):
            return i
    return -1


def _check_queries(r, traj, queries, inside_counter, hit=None):
    if hit is None:
        hit = pb.HitResult(_shot(), traj, True)
    n = len(traj)
    for q in queries:
        k = q["kind"]
        if k == "dist":
            u = Unit[q["unit"]]
            if "on" in q and q["on"] < len(traj):
                val = traj[q["on"]].distance >> u
            elif "on" in q:  # the row was removed by an in-place edit: query its former distance
                val = pb.Distance.Foot(q.get("ft_on", 0.0)) >> u
            else:
                val = pb.Distance.Foot(float(q["ft"])) >> u
            exp = _first(lambda row: (row.distance >> u) >= val, traj)
            got = H.find_index_of_point_for_distance(hit, val, u)
            if got != exp:
                r.bad("C20:helpers.find_index_of_point_for_distance", f"query {val!r} {q['unit']}: got {got}, sequential scan {exp}", q=q)
            if q["unit"] == "Meter":
                # the unit argument left out: the documented default is metres
                got_d = H.find_index_of_point_for_distance(hit, val)
                tt_d = H.find_time_for_distance_in_shot(hit, val)
                if got_d != exp or not (tt_d == traj[exp].time if exp >= 0 else (isinstance(tt_d, float) and math.isnan(tt_d))):
                    r.bad("C20:helpers:default-distance-unit", f"query {val!r} with the unit left out: index {got_d}, time {tt_d!r}; sequential scan in metres {exp}", q=q)
            tt = H.find_time_for_distance_in_shot(hit, val, u)
            if exp < 0:
                if not (isinstance(tt, float) and math.isnan(tt)):
                    r.bad("C20:helpers.find_time_for_distance_in_shot:sentinel", f"query {val!r}: no row qualifies but got {tt!r}", q=q)
            elif tt != traj[exp].time:
                r.bad("C20:helpers.find_time_for_distance_in_shot", f"query {val!r}: got {tt!r}, expected {traj[exp].time!r}", q=q)
            dq = u(val)
            exp2 = _first(lambda row: row.distance.raw_value >= dq.raw_value, traj)
            got2 = hit.index_at_distance(dq)
            if got2 != exp2:
                r.bad("C20:HitResult.index_at_distance", f"query {dq}: got {got2}, sequential scan {exp2}", q=q)
            try:
                row = hit.get_at_distance(dq)
                if exp2 < 0:
                    r.bad("C20:HitResult.get_at_distance:sentinel", f"query {dq}: no row qualifies but got a row", q=q)
                elif row is not traj[exp2]:
                    r.bad("C20:HitResult.get_at_distance", f"query {dq}: wrong row", q=q)
            except ArithmeticError:
                if exp2 >= 0:
                    r.bad("C20:HitResult.get_at_distance:raises", f"query {dq}: raised although row {exp2} qualifies", q=q)
            if 0 < exp < n:
                inside_counter[0] += 1
        elif k == "time":
            tq = float(q["t"])
            exp = _first(lambda row: row.time >= tq, traj)
            got = H.find_index_for_time_point(hit, tq, True)
            if got != exp:
                r.bad("C20:helpers.find_index_for_time_point:strict", f"time {tq!r}: got {got}, sequential scan {exp}", q=q)
            got_d = H.find_index_for_time_point(hit, tq)     # mode left out: the documented default is "first row at or after"
            if got_d != exp:
                r.bad("C20:helpers.find_index_for_time_point:default-mode", f"time {tq!r} with the mode left out: got {got_d}, sequential scan {exp}", q=q)
            if 0 < exp < n:
                inside_counter[0] += 1
        elif k == "time-near":
            tq, dev = q["t"], q["dev"]
            try:
                got = H.find_index_for_time_point(hit, tq, False, dev)
            except IndexError as exc:
                if n == 0:
                    r.bad("C20:nearest-time:empty-trajectory", f"empty trajectory: IndexError ({exc}) instead of -1", q=q)
                    continue
                raise
            if n == 0:
                if got != -1:
                    r.bad("C20:nearest-time:empty-trajectory", f"empty trajectory: got {got!r}", q=q)
                continue
            diffs = [abs(row.time - tq) for row in traj]
            m = min(diffs)
            # the deviation left out: the documented default is 1 s
            got_d = H.find_index_for_time_point(hit, tq, False)
            if (got_d == -1) != (m > 1.0) or (got_d != -1 and (not (0 <= got_d < n) or diffs[got_d] != m)):
                r.bad("C20:nearest-time:default-deviation", f"time {tq!r} with the deviation left out (1 s): got {got_d}, nearest row is {m!r} s away", q=q)
            if m > dev:
                if got != -1:
                    r.bad("C20:nearest-time:deviation", f"time {tq!r} dev {dev!r}: nearest is {m!r} away but got {got}", q=q)
            else:
                if got == -1:
                    r.bad("C20:nearest-time:deviation", f"time {tq!r} dev {dev!r}: nearest is {m!r} away but got -1", q=q)
                elif not (0 <= got < n) or diffs[got] != m:
                    r.bad("C20:nearest-time:not-nearest", f"time {tq!r}: got row {got} (|dt|={diffs[got] if 0 <= got < n else None!r}), minimum {m!r}", q=q)
                elif any(traj[j].time < traj[got].time and abs(Fraction(traj[j].time) - Fraction(tq))
                         == abs(Fraction(traj[got].time) - Fraction(tq)) for j in range(got)):
                    r.bad("C20:nearest-time:tie-later", f"time {tq!r}: rows tie at |dt|={m!r} but the later one ({got}) was returned", q=q)
            if traj[0].time < tq < traj[-1].time:
                inside_counter[0] += 1
        elif k == "vel":
            u = Unit[q["unit"]]
            exp = _first(lambda row: (row.velocity >> u) < q["v"], traj)
            got = H.find_velocity_less_than_index(hit, q["v"], u)
            if got != exp:
                r.bad("C20:helpers.find_velocity_less_than_index", f"v {q['v']!r}: got {got}, scan {exp}", q=q)
        elif k == "flag":
            fl = q["flag"]
            exp = _first(lambda row: row.flag & fl, traj)
            got = H.find_index_of_point_with_flag(hit, fl)
            if got != exp:
                r.bad("C20:helpers.find_index_of_point_with_flag", f"flag {fl}: got {got}, scan {exp}", q=q)
            if fl == 4 and H.find_mach_point_index(hit) != exp:
                r.bad("C20:helpers.find_mach_point_index", f"got {H.find_mach_point_index(hit)}, scan {exp}", q=q)
            if fl == 2 and H.find_touch_point_index(hit) != exp:
                r.bad("C20:helpers.find_touch_point_index", f"got {H.find_touch_point_index(hit)}, scan {exp}", q=q)


def check(case):
    r = Res()
    traj = _mk_rows(case["rows"])
    n = len(traj)
    inside = [0]
    r.label(f"rows:{'0' if n == 0 else '1' if n == 1 else '2-5' if n <= 5 else '6+'}")
    _check_queries(r, traj, case["queries"], inside)
    hit = pb.HitResult(_shot(), traj, True)
    # apex
    if n == 0:
        if H.find_index_of_apex_in_points(traj) != -1 or H.find_index_of_apex_point(hit) != -1:
            r.bad("C20:apex:empty", "apex of an empty trajectory is not -1")
    elif case["peaked"]:
        hs = [row.height.raw_value for row in traj]
        exp = max(range(n), key=lambda i: hs[i])
        if sum(1 for x in hs if x == hs[exp]) == 1:  # float rounding may flatten tiny steps: only strict peaks
            strictly = all(hs[i] < hs[i + 1] for i in range(exp)) and all(hs[i] > hs[i + 1] for i in range(exp, n - 1))
            if strictly:
                r.label("apex-checked")
                for name, got in (("in_points", H.find_index_of_apex_in_points(traj)), ("point", H.find_index_of_apex_point(hit))):
                    if got != exp:
                        r.bad("C20:apex:" + name, f"apex helper returned {got}, highest row is {exp}")
    # history: the same HitResult after in-place edits of its row list must answer for the rows it has now
    if case.get("edits"):
        live = pb.HitResult(_shot(), list(traj), True)
        _check_queries(r, live.trajectory, case["queries"], [0], hit=live)
        for k, a, dd, dtt in case["edits"]:
            rows_now = live.trajectory
            if k == "truncate":
                del rows_now[a % (len(rows_now) + 1):]
            elif k == "drop-head":
                del rows_now[:a % (len(rows_now) + 1)]
            elif k == "clear":
                rows_now.clear()
            else:
                base = rows_now[-1] if rows_now else None
                d0 = (base.distance.raw_value / 12.0) if base else 0.0
                t0 = base.time if base else 0.0
                rows_now.extend(_mk_rows([[d0 + dd * (i + 1), t0 + dtt * (i + 1), 0.0, 900.0, 8] for i in range(1 + a % 3)]))
            before = len(r.violations)
            _check_queries(r, rows_now, case["queries"], [0], hit=live)
            if len(r.violations) > before:
                v = r.violations[before]
                v.key = v.key + ":after-in-place-edit"
                del r.violations[before + 1:]
                break
        r.label("edited-in-place")
    r.nontrivial = n >= 3 and inside[0] > 0
    if any(isinstance(q.get("ft", q.get("t")), str) for q in case["queries"]):
        r.label("non-finite-query")
    if any(case["rows"][i][0] == case["rows"][i + 1][0] for i in range(n - 1)):
        r.label("repeated-distance")
    if any(case["rows"][i][1] == case["rows"][i + 1][1] for i in range(n - 1)):
        r.label("repeated-time")
    return r


# --- real trajectories -----------------------------------------------------------------------
@st.composite
def _real(draw):
    return {"mv": draw(st.floats(800.0, 3200.0)), "bc": draw(st.floats(0.1, 0.6)),
            "el_deg": draw(st.floats(0.0, 8.0)), "range_ft": draw(st.floats(300.0, 2400.0)),
            "step_ft": draw(st.floats(10.0, 300.0)), "extra": draw(st.booleans()),
            "qs": draw(st.lists(st.floats(-0.1, 1.2), min_size=6, max_size=6)),
            "unit": draw(st.sampled_from(DIST))}


def check_real(case):
    r = Res()
    shot = pb.Shot(pb.Weapon(pb.Distance.Inch(2)), pb.Ammo(pb.DragModel(case["bc"], pb.TableG7), pb.Velocity.FPS(case["mv"])),
                   relative_angle=pb.Angular.Degree(case["el_deg"]))
    calc = pb.Calculator()
    try:
        hit = calc.fire(shot, pb.Distance.Foot(case["range_ft"]), pb.Distance.Foot(case["step_ft"]), extra_data=case["extra"])
        traj = list(hit.trajectory)
    except pb.RangeError as e:
        traj = list(e.incomplete_trajectory)
        r.label("range-error")
    n = len(traj)
    last_ft = traj[-1].distance >> pb.Distance.Foot
    last_t = traj[-1].time
    qs = []
    for i, f in enumerate(case["qs"]):
        if i % 3 == 0:
            qs.append({"kind": "dist", "unit": case["unit"], "ft": f * last_ft})
        elif i % 3 == 1:
            qs.append({"kind": "time", "t": max(0.0, f * last_t)})
        else:
            qs.append({"kind": "time-near", "t": max(0.0, f * last_t), "dev": 0.05})
    for i in (0, n // 2, n - 1):
        qs.append({"kind": "dist", "unit": case["unit"], "on": i})
    inside = [0]
    _check_queries(r, traj, qs, inside)
    # apex on the real (single-peaked in height) trajectory, only when strictly so
    hs = [row.height.raw_value for row in traj]
    exp = max(range(n), key=lambda i: hs[i])
    if all(hs[i] < hs[i + 1] for i in range(exp)) and all(hs[i] > hs[i + 1] for i in range(exp, n - 1)):
        got = H.find_index_of_apex_in_points(traj)
        if got != exp:
            r.bad("C20:apex:real", f"apex helper returned {got}, highest row is {exp}")
    r.nontrivial = n >= 3 and inside[0] > 0
    r.label("real")
    return r


def parts(tier):
    return [
        Part("synthetic", strategy=_traj(), check=check, n={"quick": 12000, "thorough": 900000}),
        Part("real", strategy=_real(), check=check_real, n={"quick": 160, "thorough": 3000}),
    ]


MANIFEST = {
    "technique": "Hypothesis-generated synthetic and real trajectories with placed queries; differential against a sequential-scan reference",
    "text": "Every look-up (HitResult.index_at_distance/get_at_distance, helpers.find_index_of_point_for_distance, find_time_for_distance_in_shot, "
            "find_index_for_time_point strict/nearest, flag/velocity finders, apex helpers) must return exactly what a sequential scan with the same "
            "predicate returns, or the documented sentinel. Exploration level over generated trajectories (0..60 rows, repeats) and queries on/between/beyond rows.",
    "note": "reference scan uses the library's own unit conversion for the predicate (conversion correctness is C06)",
}
