"""Reference models written independently from the library (SI definitions, ISA, formulas)."""
import math

PI = math.pi

# ---------------------------------------------------------------------------------------------
# Units: each unit is (dimension, to_si(x), from_si(x), derivative scale for conditioning)
# SI base per dimension: m, J, Pa, kg, m/s, rad, K
# ---------------------------------------------------------------------------------------------
G0 = 9.80665
LB = 0.45359237
GRAIN = 64.79891e-6
INCH = 0.0254
MMHG = 133.322387415  # conventional mmHg in Pa

LINEAR = {
    # distance (m)
    "Inch": ("distance", INCH), "Foot": ("distance", 12 * INCH), "Yard": ("distance", 36 * INCH),
    "Mile": ("distance", 63360 * INCH), "NauticalMile": ("distance", 1852.0), "Millimeter": ("distance", 1e-3),
    "Centimeter": ("distance", 1e-2), "Meter": ("distance", 1.0), "Kilometer": ("distance", 1e3),
    "Line": ("distance", INCH / 10),
    # energy (J): ft-lbf = 0.3048 m * lb * g0
    "FootPound": ("energy", 12 * INCH * LB * G0), "Joule": ("energy", 1.0),
    # pressure (Pa)
    "MmHg": ("pressure", MMHG), "InHg": ("pressure", 25.4 * MMHG), "Bar": ("pressure", 1e5),
    "hPa": ("pressure", 100.0), "PSI": ("pressure", LB * G0 / (INCH * INCH)),
    # velocity (m/s)
    "MPS": ("velocity", 1.0), "KMH": ("velocity", 1 / 3.6), "FPS": ("velocity", 12 * INCH),
    "MPH": ("velocity", 63360 * INCH / 3600), "KT": ("velocity", 1852.0 / 3600),
    # weight (kg); newton = the mass whose standard weight is 1 N
    "Grain": ("weight", GRAIN), "Ounce": ("weight", 437.5 * GRAIN), "Gram": ("weight", 1e-3),
    "Pound": ("weight", LB), "Kilogram": ("weight", 1.0), "Newton": ("weight", 1 / G0),
    # angular (rad), linear members
    "Radian": ("angular", 1.0), "Degree": ("angular", PI / 180), "MOA": ("angular", PI / 10800),
    "Mil": ("angular", 2 * PI / 6400), "MRad": ("angular", 1e-3), "Thousandth": ("angular", 2 * PI / 6000),
    "OClock": ("angular", 2 * PI / 12),
}
TANGENT = {"InchesPer100Yd": 3600.0, "CmPer100m": 10000.0}  # value = tan(angle) * K
AFFINE = {  # kelvin = (x + a) * b
    "Kelvin": (0.0, 1.0), "Celsius": (273.15, 1.0), "Fahrenheit": (459.67, 5 / 9), "Rankin": (0.0, 5 / 9),
}

DIMENSION = {}
for _n, (_d, _f) in LINEAR.items():
    DIMENSION[_n] = _d
for _n in TANGENT:
    DIMENSION[_n] = "angular"
for _n in AFFINE:
    DIMENSION[_n] = "temperature"

UNITS_BY_DIM = {}
for _n, _d in DIMENSION.items():
    UNITS_BY_DIM.setdefault(_d, []).append(_n)
for _d in UNITS_BY_DIM:
    UNITS_BY_DIM[_d].sort()


def to_si(x, unit):
    if unit in LINEAR:
        return x * LINEAR[unit][1]
    if unit in TANGENT:
        return math.atan(x / TANGENT[unit])
    a, b = AFFINE[unit]
    return (x + a) * b


def from_si(s, unit):
    if unit in LINEAR:
        return s / LINEAR[unit][1]
    if unit in TANGENT:
        return math.tan(s) * TANGENT[unit]
    a, b = AFFINE[unit]
    return s / b - a


def convert(x, a, b):
    return from_si(to_si(x, a), b)


def ulp(x):
    return math.ulp(abs(x)) if x != 0 else 5e-324


# ---------------------------------------------------------------------------------------------
# ISA (troposphere), SI
# ---------------------------------------------------------------------------------------------
ISA_T0 = 288.15
ISA_P0 = 101325.0
ISA_L = 0.0065
ISA_R = 287.05287
ISA_G = 9.80665
ISA_GAMMA = 1.4
ISA_RHO0 = ISA_P0 / (ISA_R * ISA_T0)


def isa(h_m):
    """-> (T [K], p [Pa], rho [kg/m3], a [m/s]) of the International Standard Atmosphere at geopotential h_m"""
    t = ISA_T0 - ISA_L * h_m
    p = ISA_P0 * (t / ISA_T0) ** (ISA_G / (ISA_R * ISA_L))
    rho = p / (ISA_R * t)
    a = math.sqrt(ISA_GAMMA * ISA_R * t)
    return t, p, rho, a


# ---------------------------------------------------------------------------------------------
# Miller stability / Litz spin drift (imperial inputs)
# ---------------------------------------------------------------------------------------------
def miller_sg(weight_gr, diameter_in, length_in, twist_in, mv_fps, temp_f, press_inhg):
    if not (twist_in and length_in and diameter_in and press_inhg):
        return 0.0
    t = abs(twist_in) / diameter_in
    l = length_in / diameter_in
    sg = 30.0 * weight_gr / (t ** 2 * diameter_in ** 3 * l * (1 + l ** 2))
    fv = (mv_fps / 2800.0) ** (1.0 / 3.0)
    ftp = ((temp_f + 460.0) / (59.0 + 460.0)) * (29.92 / press_inhg)
    return sg * fv * ftp


def litz_spin_drift_ft(sg, twist_in, t):
    if sg == 0 or twist_in == 0:
        return 0.0
    s = 1.0 if twist_in > 0 else -1.0
    return s * 1.25 * (sg + 1.2) * t ** 1.83 / 12.0


# ---------------------------------------------------------------------------------------------
# piecewise-linear interpolation, clamped
# ---------------------------------------------------------------------------------------------
def pw_linear(x, xs, ys):
    """xs ascending (strictly)"""
    if x <= xs[0]:
        return ys[0]
    if x >= xs[-1]:
        return ys[-1]
    for i in range(len(xs) - 1):
        if xs[i] <= x <= xs[i + 1]:
            w = (x - xs[i]) / (xs[i + 1] - xs[i])
            return ys[i] + (ys[i + 1] - ys[i]) * w
    raise AssertionError("unreachable")


def lagrange3(x, p0, p1, p2):
    (x0, y0), (x1, y1), (x2, y2) = p0, p1, p2
    return (y0 * (x - x1) * (x - x2) / ((x0 - x1) * (x0 - x2))
            + y1 * (x - x0) * (x - x2) / ((x1 - x0) * (x1 - x2))
            + y2 * (x - x0) * (x - x1) / ((x2 - x0) * (x2 - x1)))


def line2(x, p0, p1):
    (x0, y0), (x1, y1) = p0, p1
    return y0 + (y1 - y0) * (x - x0) / (x1 - x0)
