"""Reference solution of the 3-DoF point-mass equations, integrated with classical RK4 in the down-range coordinate x.

   a = g - rho(alt0 + y) * |v_a| * K(|v_a| / c(alt0 + y)) * v_a,      v_a = v - w(x)

rho, c (density ratio, speed of sound) and K (drag function / BC) are black boxes handed in by the caller (the property
prescribes the library's own coefficient functions there; their correctness is C08 / C09).  Everything else - initial
state, wind segments, gravity, the integration itself - is written here from the statement."""
import math


def launch_state(mv, sh_ft, look, zero, rel, cant):
    e = look + math.cos(cant) * (zero + rel)
    az = math.sin(cant) * (zero + rel)
    pos = (0.0, -math.cos(cant) * sh_ft, -math.sin(cant) * sh_ft)
    vel = (mv * math.cos(e) * math.cos(az), mv * math.sin(e), mv * math.cos(e) * math.sin(az))
    return pos, vel


def wind_segments(winds, shifts=None, key=None):
    """[(until_ft, wx, wz)] sorted by until-distance (stable); zero wind beyond the last.
    `key` maps an until-distance in feet to the magnitude the order is decided on (the caller passes the quantity's
    base-unit value: two distances one ulp apart in feet can be equal there, and equal distances keep the given order)"""
    key = key or (lambda u: u)
    segs = []
    for i, (speed, direction, until) in enumerate(sorted(winds or [], key=lambda w: key(w[2]))):
        u = until + (shifts[i] if shifts else 0.0)
        segs.append((u, speed * math.cos(direction), speed * math.sin(direction)))
    return segs


def integrate(pos, vel, g, alt0, rho_c, K, segs, targets, dx):
    """-> {target_x: (t, y, z, speed, vx_over_v_min)}; RK4 in x, steps split at wind boundaries and targets"""
    t = 0.0
    x, y, z = pos
    vx, vy, vz = vel
    out = {}
    targets = sorted(targets)
    ti = 0
    si = 0
    nseg = len(segs)
    min_ratio = 1.0

    def deriv(y_, vx_, vy_, vz_, wx, wz):
        rho, c = rho_c(alt0 + y_)
        ax_, az_ = vx_ - wx, vz_ - wz
        va = math.sqrt(ax_ * ax_ + vy_ * vy_ + az_ * az_)
        k = rho * va * K(va / c)
        inv = 1.0 / vx_
        return (inv, vy_ * inv, vz_ * inv, (-k * ax_) * inv, (g - k * vy_) * inv, (-k * az_) * inv)

    while ti < len(targets):
        # current wind
        while si < nseg and x >= segs[si][0]:
            si += 1
        wx, wz = (segs[si][1], segs[si][2]) if si < nseg else (0.0, 0.0)
        nxt = targets[ti]
        if si < nseg and segs[si][0] < nxt:
            nxt = segs[si][0]
        h = min(dx, nxt - x)
        if h <= 0:
            if nxt == targets[ti]:
                sp = math.sqrt(vx * vx + vy * vy + vz * vz)
                out[targets[ti]] = (t, y, z, sp)
                ti += 1
                continue
            x = nxt
            continue
        k1 = deriv(y, vx, vy, vz, wx, wz)
        k2 = deriv(y + 0.5 * h * k1[1], vx + 0.5 * h * k1[3], vy + 0.5 * h * k1[4], vz + 0.5 * h * k1[5], wx, wz)
        k3 = deriv(y + 0.5 * h * k2[1], vx + 0.5 * h * k2[3], vy + 0.5 * h * k2[4], vz + 0.5 * h * k2[5], wx, wz)
        k4 = deriv(y + h * k3[1], vx + h * k3[3], vy + h * k3[4], vz + h * k3[5], wx, wz)
        t += h / 6 * (k1[0] + 2 * k2[0] + 2 * k3[0] + k4[0])
        y += h / 6 * (k1[1] + 2 * k2[1] + 2 * k3[1] + k4[1])
        z += h / 6 * (k1[2] + 2 * k2[2] + 2 * k3[2] + k4[2])
        vx += h / 6 * (k1[3] + 2 * k2[3] + 2 * k3[3] + k4[3])
        vy += h / 6 * (k1[4] + 2 * k2[4] + 2 * k3[4] + k4[4])
        vz += h / 6 * (k1[5] + 2 * k2[5] + 2 * k3[5] + k4[5])
        x = x + h if h < nxt - x else nxt
        sp = math.sqrt(vx * vx + vy * vy + vz * vz)
        if vx <= 0 or sp <= 0:
            out["failed"] = True
            return out
        min_ratio = min(min_ratio, vx / sp)
    out["min_vx_ratio"] = min_ratio
    return out


def vacuum_closed_form(pos, vel, g, x):
    t = x / vel[0]
    return (t, pos[1] + vel[1] * t + g * t * t / 2, pos[2] + vel[2] * t, math.sqrt(vel[0] ** 2 + (vel[1] + g * t) ** 2 + vel[2] ** 2))
