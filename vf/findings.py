"""KNOWN_FINDINGS.txt: committed, never written at run time.

  finding: property=<id> key=<key> <what fails>
  fixed: property=<id> <commit> <what failed>

Only `finding:` lines suppress anything, and only the exact violation key they name."""
import os
import re

PATH = os.path.join(os.path.dirname(os.path.dirname(os.path.abspath(__file__))), "KNOWN_FINDINGS.txt")

_F = re.compile(r"^finding:\s+property=(\S+)\s+key=(\S+)\s+(.*)$")


def load(pid):
    """-> {key: text} of open findings for property pid"""
    out = {}
    if not os.path.exists(PATH):
        return out
    with open(PATH, encoding="utf-8") as fh:
        for line in fh:
            line = line.strip()
            m = _F.match(line)
            if m and m.group(1) == pid:
                out[m.group(2)] = m.group(3)
    return out
