"""Deterministic, harness-owned thread scheduler at line granularity (C10 engine b).

k jobs run in k real threads, but only one thread runs at a time: every thread traces its own execution with
sys.settrace and, at `line` events inside the package under test, counts down a budget; when the budget is used up the
thread hands control to the thread named by the next entry of the generated schedule [(thread, n_lines), ...] through
per-thread semaphores and blocks.  The interleaving is therefore a pure function of (jobs, schedule)."""
import os
import sys
import threading

from . import lib

_PKG = os.path.join(lib.REPO, "py_ballisticcalc") + os.sep


class Scheduler:
    def __init__(self, jobs, schedule, tail_slice=500):
        self.jobs = jobs
        self.k = len(jobs)
        self.schedule = list(schedule)
        self.pos = 0
        self.tail_slice = tail_slice
        self.sems = [threading.Semaphore(0) for _ in jobs]
        self.done = [False] * self.k
        self.results = [None] * self.k
        self.errors = [None] * self.k
        self.budget = 0
        self.switches = 0
        self.lines = 0
        self.lock = threading.Lock()

    # -- schedule
    def _next(self, current):
        """next (thread, budget) among the threads that have not finished"""
        alive = [i for i in range(self.k) if not self.done[i]]
        if not alive:
            return None, 0
        while self.pos < len(self.schedule):
            tid, n = self.schedule[self.pos]
            self.pos += 1
            tid %= self.k
            if not self.done[tid]:
                return tid, max(1, n)
        # schedule exhausted: round robin in fixed slices
        if current is None or self.done[current]:
            nxt = alive[0]
        else:
            nxt = alive[(alive.index(current) + 1) % len(alive)]
        return nxt, self.tail_slice

    def _hand_over(self, tid):
        nxt, n = self._next(tid)
        if nxt is None:
            return
        self.budget = n
        if nxt != tid:
            self.switches += 1
            self.sems[nxt].release()
            if not self.done[tid]:
                self.sems[tid].acquire()

    # -- tracing
    def _make_tracer(self, tid):
        def local(frame, event, arg):
            if event == "line":
                self.lines += 1
                self.budget -= 1
                if self.budget <= 0:
                    self._hand_over(tid)
            return local

        def glob(frame, event, arg):
            if frame.f_code.co_filename.startswith(_PKG):
                return local
            return None
        return glob

    def _run(self, tid):
        self.sems[tid].acquire()
        sys.settrace(self._make_tracer(tid))
        try:
            self.results[tid] = self.jobs[tid]()
        except BaseException as exc:  # noqa
            self.errors[tid] = exc
        finally:
            sys.settrace(None)
            self.done[tid] = True
            self._hand_over(tid)

    def run(self, timeout=600):
        threads = [threading.Thread(target=self._run, args=(i,), daemon=True) for i in range(self.k)]
        for t in threads:
            t.start()
        first, n = self._next(None)
        self.budget = n
        self.sems[first].release()
        for t in threads:
            t.join(timeout)
        if any(t.is_alive() for t in threads):
            raise RuntimeError("scheduler: a job did not finish (deadlock in the harness?)")
        return self.results, self.errors


def run_free(jobs, switch_interval=1e-6):
    """engine c: the same jobs in free-running threads with a tiny switch interval"""
    old = sys.getswitchinterval()
    results = [None] * len(jobs)
    errors = [None] * len(jobs)
    barrier = threading.Barrier(len(jobs))

    def body(i):
        try:
            barrier.wait(30)
            results[i] = jobs[i]()
        except BaseException as exc:  # noqa
            errors[i] = exc

    sys.setswitchinterval(switch_interval)
    try:
        threads = [threading.Thread(target=body, args=(i,), daemon=True) for i in range(len(jobs))]
        for t in threads:
            t.start()
        for t in threads:
            t.join(600)
    finally:
        sys.setswitchinterval(old)
    return results, errors
