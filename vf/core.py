"""Common data types and the Hypothesis drivers (plain, exhaustive, stateful)."""
import hashlib
import json
import os
import sys
import traceback
from collections import Counter

MAX_ROUNDS = 6          # re-runs of one part in one shard with found keys excluded (root-cause enumeration)
SAMPLES_PER_PART = 2


class V:
    """One violation: key names the sub-oracle / call site (root cause), msg is human readable."""
    __slots__ = ("key", "msg", "details")

    def __init__(self, key, msg, details=None):
        self.key = key
        self.msg = msg
        self.details = details or {}

    def as_dict(self):
        return {"key": self.key, "message": self.msg, "details": self.details}


class Res:
    """Result of check(case)."""
    __slots__ = ("violations", "nontrivial", "labels", "info", "target")

    def __init__(self):
        self.violations = []
        self.nontrivial = False
        self.labels = []
        self.info = {}
        self.target = None  # optional float for hypothesis.target()

    def bad(self, key, msg, **details):
        self.violations.append(V(key, msg, details))

    def label(self, *names):
        self.labels.extend(names)


class Part:
    """One generated sub-check of a property.

    kind = 'hyp'     : strategy -> case -> check(case) -> Res
    kind = 'enum'    : cases() yields the complete finite list; sharded round-robin; exhaustive
    kind = 'machine' : interp_factory() -> object with .rules (name->strategy), .apply(op)->Res ; histories
    """

    def __init__(self, name, kind="hyp", strategy=None, check=None, cases=None, n=None,
                 interp=None, rules=None, steps=None, exhaustive=False, weight_note="", use_target=False, run=None,
                 max_shards=None):
        self.name = name
        self.kind = kind
        self.strategy = strategy
        self.check = check
        self.cases = cases
        self.n = n or {"quick": 100, "thorough": 1000}
        self.interp = interp
        self.rules = rules
        self.steps = steps or {"quick": 20, "thorough": 40}
        self.exhaustive = exhaustive
        self.weight_note = weight_note
        self.use_target = use_target
        self.run = run              # kind = 'custom': run(pid, part, n, seed, stats, known, found)
        self.max_shards = max_shards


def case_hash(case):
    return hashlib.sha1(json.dumps(case, sort_keys=True, default=str).encode()).hexdigest()[:16]


class Stats:
    def __init__(self):
        self.evaluations = 0
        self.nontrivial = set()
        self.samples = []
        self.labels = Counter()
        self.excluded = Counter()
        self.per_part = Counter()
        self.per_part_nt = Counter()
        self.max_target = {}
        self.steps = 0

    def record(self, part, case, res):
        self.evaluations += 1
        self.per_part[part.name] += 1
        for l in res.labels:
            self.labels[f"{part.name}:{l}"] += 1
        if res.target is not None:
            k = part.name
            if k not in self.max_target or res.target > self.max_target[k]:
                self.max_target[k] = res.target
        if res.nontrivial:
            h = case_hash(case)
            if h not in self.nontrivial:
                self.nontrivial.add(h)
                self.per_part_nt[part.name] += 1
                # the first generated cases are Hypothesis's simplest ones; also keep a later, more typical one
                if self.per_part_nt[part.name] in (1, 12):
                    self.samples.append({"part": part.name, "case": case, "labels": list(res.labels)[:12]})

    def dump(self):
        return {"evaluations": self.evaluations, "nontrivial": sorted(self.nontrivial), "samples": self.samples,
                "labels": dict(self.labels), "excluded": dict(self.excluded), "per_part": dict(self.per_part),
                "per_part_nt": dict(self.per_part_nt), "max_target": self.max_target, "steps": self.steps}


class ViolationFound(Exception):
    pass


class HarnessError(Exception):
    pass


FLAKY_NOTE = ("observed once; when Hypothesis re-executed the same case in the same process the violation did not recur (the first "
              "execution left process-global state behind, which is what the violation is about); the replay file runs in a fresh process")


def _is_flaky(exc):
    """Hypothesis reports a failure that does not recur on re-execution as Flaky / FlakyFailure (an exception group)"""
    names = {c.__name__ for c in type(exc).__mro__}
    return bool(names & {"Flaky", "FlakyFailure", "FlakyReplay", "FlakyStrategyDefinition"}) and "FlakyStrategyDefinition" not in names


def _lib_frame(tb):
    """innermost traceback frame inside the tree under test, or None"""
    found = None
    for fs in traceback.extract_tb(tb):
        fn = fs.filename.replace("\\", "/")
        if "/py_ballisticcalc/" in fn and "/vf/" not in fn:
            found = f"{os.path.basename(fn)}:{fs.name}"
    return found


def safe_check(pid, part, case):
    """Run part.check(case); an exception escaping from library code is a violation
    (keyed by type and innermost library frame); one raised with no library frame is a harness error."""
    from . import lib
    lib.reset_state()
    try:
        res = part.check(case)
    except (ViolationFound, HarnessError, KeyboardInterrupt):
        raise
    except BaseException as exc:  # noqa
        if type(exc).__module__.startswith("hypothesis"):
            raise
        frame = _lib_frame(exc.__traceback__)
        if frame is None:
            raise HarnessError("exception in harness: " + "".join(
                traceback.format_exception(type(exc), exc, exc.__traceback__))[-3000:])
        res = Res()
        res.bad(f"{pid}:{part.name}:unexpected-exception:{type(exc).__name__}@{frame}",
                f"unexpected {type(exc).__name__}: {exc}",
                traceback="".join(traceback.format_exception(type(exc), exc, exc.__traceback__))[-2500:])
    finally:
        lib.reset_state()
    return res


def _settings(n, steps=None, use_target=False):
    from hypothesis import settings, HealthCheck, Phase
    kw = dict(max_examples=max(1, n), database=None, deadline=None, derandomize=False,
              report_multiple_bugs=False, print_blob=False,
              suppress_health_check=[HealthCheck.too_slow, HealthCheck.data_too_large,
                                     HealthCheck.large_base_example, HealthCheck.filter_too_much],
              phases=[ph for ph in ([Phase.generate, Phase.target, Phase.shrink] if use_target
                                    else [Phase.generate, Phase.shrink])
                      if not (ph is Phase.shrink and os.environ.get("VERIF_NOSHRINK"))])
    if steps is not None:
        kw["stateful_step_count"] = steps
    return settings(**kw)


def run_hyp(pid, part, n, seed_value, stats, known, found):
    import hypothesis
    from hypothesis import given, seed
    excluded = set(known)
    # VERIF_TARGET=1: Hypothesis' targeted phase climbs the check's "distance to violation" (calibration runs)
    use_target = part.use_target or bool(os.environ.get("VERIF_TARGET"))
    for _round in range(MAX_ROUNDS):
        last = {}

        @seed(seed_value)
        @_settings(n, use_target=use_target)
        @given(part.strategy)
        def body(case):
            res = safe_check(pid, part, case)
            stats.record(part, case, res)
            if res.target is not None and use_target:
                try:
                    hypothesis.target(float(res.target))
                except Exception:
                    pass
            bad = []
            for v in res.violations:
                if v.key in excluded:
                    stats.excluded[v.key] += 1
                else:
                    bad.append(v)
            if bad:
                last["case"] = case
                last["v"] = bad[0]
                raise ViolationFound(bad[0].key)

        try:
            body()
        except ViolationFound:
            found.append({"part": part.name, "case": last["case"], **last["v"].as_dict()})
            excluded.add(last["v"].key)
            continue
        except BaseException as exc:  # noqa
            if not _is_flaky(exc) or "v" not in last:
                raise
            found.append({"part": part.name, "case": last["case"], **last["v"].as_dict(), "note": FLAKY_NOTE})
            excluded.add(last["v"].key)
            continue
        return
    return


def run_enum(pid, part, shard, nshards, stats, known, found):
    excluded = set(known)
    for i, case in enumerate(part.cases()):
        if i % nshards != shard:
            continue
        res = safe_check(pid, part, case)
        stats.record(part, case, res)
        for v in res.violations:
            if v.key in excluded:
                stats.excluded[v.key] += 1
            else:
                found.append({"part": part.name, "case": case, **v.as_dict()})
                excluded.add(v.key)


def run_machine(pid, part, n, steps, seed_value, stats, known, found):
    """Histories: a RuleBasedStateMachine whose rules append an op dict to the history and delegate to a
    plain interpreter; the case is the executed op list, so replay needs no Hypothesis."""
    from hypothesis import seed
    from hypothesis.stateful import RuleBasedStateMachine, rule, run_state_machine_as_test
    from . import lib
    excluded = set(known)

    for _round in range(MAX_ROUNDS):
        last = {}

        def _mk_rule(opname, strat):
            @rule(args=strat)
            def _r(self, args):
                self._do({"op": opname, "args": args})
            _r.__name__ = "op_" + opname
            return _r

        def _init(self):
            RuleBasedStateMachine.__init__(self)
            lib.reset_state()
            self.interp = part.interp()
            self.history = []
            self.res_acc = Res()

        def _do(self, op):
            self.history.append(op)
            stats.steps += 1
            try:
                res = self.interp.apply(op)
            except (ViolationFound, HarnessError, KeyboardInterrupt):
                raise
            except BaseException as exc:  # noqa
                if type(exc).__module__.startswith("hypothesis"):
                    raise
                frame = _lib_frame(exc.__traceback__)
                if frame is None:
                    raise HarnessError("exception in harness: " + "".join(
                        traceback.format_exception(type(exc), exc, exc.__traceback__))[-3000:])
                res = Res()
                res.bad(f"{pid}:{part.name}:unexpected-exception:{type(exc).__name__}@{frame}",
                        f"unexpected {type(exc).__name__}: {exc}",
                        traceback="".join(traceback.format_exception(type(exc), exc, exc.__traceback__))[-2500:])
            if res is None:
                return
            self.res_acc.labels.extend(res.labels)
            bad = []
            for v in res.violations:
                if v.key in excluded:
                    stats.excluded[v.key] += 1
                else:
                    bad.append(v)
            if bad:
                last["case"] = list(getattr(self.interp, "case_prefix", list)()) + list(self.history)
                last["v"] = bad[0]
                self._finish()
                raise ViolationFound(bad[0].key)

        def _finish(self):
            if getattr(self, "_finished", False):
                return
            self._finished = True
            r = self.res_acc
            try:
                r.nontrivial = bool(self.interp.nontrivial())
                r.labels.extend(self.interp.labels())
            except Exception:
                pass
            stats.record(part, list(self.history), r)
            try:
                self.interp.close()
            except Exception:
                pass
            lib.reset_state()

        def _teardown(self):
            self._finish()

        attrs = {"__init__": _init, "_do": _do, "_finish": _finish, "teardown": _teardown}
        for opname, strat in part.rules.items():
            attrs["op_" + opname] = _mk_rule(opname, strat)
        M = type(f"Machine_{pid}_{part.name}", (RuleBasedStateMachine,), attrs)
        try:
            run_state_machine_as_test(seed(seed_value)(M), settings=_settings(n, steps))
        except ViolationFound:
            found.append({"part": part.name, "case": last["case"], **last["v"].as_dict()})
            excluded.add(last["v"].key)
            continue
        except BaseException as exc:  # noqa
            if not _is_flaky(exc) or "v" not in last:
                raise
            found.append({"part": part.name, "case": last["case"], **last["v"].as_dict(), "note": FLAKY_NOTE})
            excluded.add(last["v"].key)
            continue
        return


def replay_machine(pid, part, history):
    """Replay a saved history through the interpreter (no Hypothesis)."""
    from . import lib
    lib.reset_state()
    interp = part.interp()
    out = Res()
    try:
        for op in history:
            try:
                res = interp.apply(op)
            except BaseException as exc:  # noqa
                frame = _lib_frame(exc.__traceback__)
                if frame is None:
                    raise
                res = Res()
                res.bad(f"{pid}:{part.name}:unexpected-exception:{type(exc).__name__}@{frame}",
                        f"unexpected {type(exc).__name__}: {exc}")
            if res is not None:
                out.violations.extend(res.violations)
                out.labels.extend(res.labels)
                if res.violations:
                    break
        out.nontrivial = bool(interp.nontrivial())
    finally:
        try:
            interp.close()
        except Exception:
            pass
        lib.reset_state()
    return out
