"""Import the tree under test (VERIF_REPO, default /repo) and expose helpers to
reset its process-global state around every case."""
import os
import sys
import warnings
import logging

REPO = os.path.abspath(os.environ.get("VERIF_REPO", "/repo"))
if REPO in sys.path:
    sys.path.remove(REPO)
sys.path.insert(0, REPO)

warnings.filterwarnings("ignore")
# the solver calls warnings.simplefilter("once") on every run, which re-enables its model-validity warnings: keep them off the console
warnings.showwarning = lambda *a, **k: None
# hooks in the tree under test (none are needed today) are switched on by this guard
os.environ.setdefault("PYBC_VERIF", "1")

import py_ballisticcalc as pb  # noqa: E402
from py_ballisticcalc import trajectory_calc as tc_mod  # noqa: E402

_pkg_file = os.path.abspath(pb.__file__)
if not _pkg_file.startswith(REPO + os.sep):
    sys.stderr.write(f"HARNESS ERROR: py_ballisticcalc imported from {_pkg_file}, expected under {REPO}\n")
    sys.exit(2)

logging.getLogger("py_ballisticcalc").setLevel(logging.CRITICAL)
try:
    pb.logger.setLevel(logging.CRITICAL)
except Exception:  # pragma: no cover
    pass

BACKEND = pb.TrajectoryCalc.__module__


def reset_state():
    """Every case starts from the library defaults."""
    pb.PreferredUnits.defaults()
    pb.reset_globals()
    warnings.filterwarnings("ignore")


def repo_head():
    try:
        import subprocess
        h = subprocess.run(["git", "-C", REPO, "rev-parse", "--short", "HEAD"], capture_output=True, text=True,
                           timeout=20).stdout.strip()
        d = subprocess.run(["git", "-C", REPO, "status", "--porcelain", "--", "py_ballisticcalc"],
                           capture_output=True, text=True, timeout=20).stdout.strip()
        return h + ("+dirty" if d else "")
    except Exception:
        return "unknown"
