"""Coverage-guided fuzzing (atheris / libFuzzer) of the unit-string parsers, with the C18 parsing oracle inside the target.

The byte string is decoded into a structured input by `decode()` (no atheris needed, so a saved crash file replays
through `oracle(decode(data))` in the ordinary check process).  Run as a module:

    python -m vf.fuzz_parse <stats_file> <artifact_dir> [libFuzzer flags]
"""
import json
import os
import sys

CHANNELS = ("parse_unit", "parse_value", "set")


def _names():
    from .props import c18
    return c18.NAMES, c18.KNOWN_LOWER, c18.SLOTS


def decode(data: bytes):
    """bytes -> structured case (pure function)"""
    names, _, _ = _names()
    b = list(data) + [0] * 12
    channel = CHANNELS[b[0] % 3]
    mode = b[1] % 4
    name, unit, kind = names[(b[2] * 256 + b[3]) % len(names)]
    rest = data[4:]
    if mode == 0:      # a real name under a per-character case mask, with blanks
        chars = []
        for i, c in enumerate(name):
            bit = (b[4 + i % 8] >> (i % 8)) & 1
            alt = c.upper() if bit else c.lower()
            chars.append(alt if (len(alt) == 1 and alt.lower() == c.lower() and alt.upper() == c.upper()) else c)
        text = "".join(chars)
        if text.lower() != name.lower():
            text = name
        text = " " * (b[5] % 3) + text + " " * (b[6] % 3)
        expect = unit
    elif mode == 1:    # a real name with the fuzzer's bytes spliced in
        ins = rest.decode("utf-8", errors="ignore")[:6]
        pos = b[4] % (len(name) + 1)
        text = name[:pos] + ins + name[pos:]
        expect = None
    elif mode == 2:    # raw text
        text = rest.decode("utf-8", errors="ignore")[:24]
        expect = None
    else:              # name of an attribute of the settings class
        import py_ballisticcalc as pb
        attrs = [a for a in dir(pb.PreferredUnits)]
        text = attrs[(b[4] * 256 + b[5]) % len(attrs)]
        if b[6] & 1:
            text = text.upper()
        expect = None
    number = f"{(b[7] * 256 + b[8]) / 100.0:.2f}" if b[9] & 1 else str(b[7] % 100)
    if b[9] & 2:
        number = "-" + number
    return {"channel": channel, "text": text, "expect": expect, "number": number}


def _strip_number(text):
    """drop what the value parser's numeric prefix takes: its regex `\\d` (and float()) accept every Unicode decimal digit,
    e.g. Arabic-Indic or NKo digits (found by the fuzzer: '0<NKo 7>InchesPer100Yd' is 7 in/100yd)"""
    i = 0
    while i < len(text) and (text[i].isdigit() or text[i] in ".-"):
        i += 1
    return text[i:]


def oracle(case):
    """-> list of (key, message); the C18 parsing clauses"""
    import py_ballisticcalc as pb
    from py_ballisticcalc.unit import _parse_unit, _parse_value
    from . import ref
    names, known, slots = _names()
    Unit = pb.Unit
    out = []
    text, channel = case["text"], case["channel"]
    low = text.strip(" ").lower()     # blanks are spaces (tabs / newlines around a name are not part of the statement)
    if low != text.strip().lower():
        return out
    expect = case["expect"]
    if expect is None:
        # a spliced / raw text may still be a real name
        for n, u, _ in names:
            if n.lower() == low:
                expect = u
                break
    is_slot = low in slots
    if channel == "parse_unit":
        try:
            got = _parse_unit(text)
        except Exception as exc:  # noqa
            out.append((f"C18:fuzz:_parse_unit:raises:{type(exc).__name__}", f"_parse_unit({text!r}) raised {type(exc).__name__}: {exc}"))
            return out
        if expect is not None:
            if got != Unit[expect] or not isinstance(got, Unit):
                out.append((f"C18:fuzz:_parse_unit:unresolved:{expect}", f"_parse_unit({text!r}) = {got!r}, expected Unit.{expect}"))
        elif not is_slot and got is not None:
            out.append(("C18:fuzz:_parse_unit:unknown-name-resolves", f"_parse_unit({text!r}) = {got!r}"))
    elif channel == "set":
        pb.PreferredUnits.defaults()
        snap = {s: getattr(pb.PreferredUnits, s) for s in slots}
        dim = ref.DIMENSION[expect] if expect else "distance"
        slot = {"angular": "angular", "distance": "distance", "velocity": "velocity", "pressure": "pressure", "temperature": "temperature",
                "weight": "weight", "energy": "energy"}[dim]
        try:
            pb.PreferredUnits.set(**{slot: text})
        except Exception as exc:  # noqa
            out.append((f"C18:fuzz:set:raises:{type(exc).__name__}", f"PreferredUnits.set({slot}={text!r}) raised {type(exc).__name__}"))
        now = {s: getattr(pb.PreferredUnits, s) for s in slots}
        if any(not isinstance(v, Unit) for v in now.values()):
            out.append(("C18:fuzz:set:slot-not-a-unit", f"PreferredUnits.set({slot}={text!r}) left {now[slot]!r} in the slot"))
        elif expect is not None:
            if now[slot] != Unit[expect]:
                out.append((f"C18:fuzz:set:ignored:{expect}", f"PreferredUnits.set({slot}={text!r}) left {now[slot]!r}"))
        elif not is_slot and now != snap:
            out.append(("C18:fuzz:set:unknown-name-changes-slot", f"PreferredUnits.set({slot}={text!r}) changed the settings"))
        pb.PreferredUnits.defaults()
    else:
        s = case["number"] + text
        dim = ref.DIMENSION[expect] if expect else None
        if dim == "angular":
            s = "1.5" + text
        try:
            q = _parse_value(s, None)
        except (pb.UnitAliasError, TypeError) as exc:
            if expect is not None and text.strip()[:1] not in "0123456789.":
                out.append((f"C18:fuzz:_parse_value:rejected:{expect}", f"_parse_value({s!r}) raised {type(exc).__name__}"))
            return out
        except Exception as exc:  # noqa
            out.append((f"C18:fuzz:_parse_value:raises:{type(exc).__name__}", f"_parse_value({s!r}) raised {type(exc).__name__}: {exc}"))
            return out
        if q is not None and not isinstance(q, pb.AbstractDimension):
            out.append(("C18:fuzz:_parse_value:not-a-quantity", f"_parse_value({s!r}) = {q!r}"))
        elif expect is not None and q is not None and text.strip()[:1] not in "0123456789." and q.units != Unit[expect]:
            out.append((f"C18:fuzz:_parse_value:wrong-unit:{expect}", f"_parse_value({s!r}) = {q!r}"))
        elif expect is None and not is_slot and q is not None and low and low[:1] not in "0123456789.-" and not any(
                # (the value parser documents that it drops all blanks, so 'Li ne' is the name 'Line')
                _strip_number(low.replace(" ", "")) == n.lower().replace(" ", "") for n, _, _ in names) \
                and _strip_number(low.replace(" ", "")) not in slots:
            out.append(("C18:fuzz:_parse_value:unknown-name-accepted", f"_parse_value({s!r}) = {q!r}"))
    return out


def main(argv):
    stats_file, artifact_dir = argv[1], argv[2]
    flags = argv[3:]
    deps = os.path.join(os.path.dirname(os.path.dirname(os.path.abspath(__file__))), ".deps")
    if os.path.isdir(deps) and deps not in sys.path:
        sys.path.insert(0, deps)
    import atheris
    import warnings
    warnings.filterwarnings("ignore")
    repo = os.path.abspath(os.environ.get("VERIF_REPO", "/repo"))
    sys.path.insert(0, repo)
    with atheris.instrument_imports(include=["py_ballisticcalc"]):   # instrument the tree under test at first import
        import py_ballisticcalc  # noqa
    from . import lib  # noqa  (asserts that the package comes from VERIF_REPO)
    stats = {"execs": 0, "known": 0, "unknown": 0, "channels": {}, "samples": [], "distinct": 0}
    seen = set()

    def one(data):
        case = decode(data)
        stats["execs"] += 1
        key = (case["channel"], case["text"])
        if key not in seen:
            seen.add(key)
            stats["distinct"] = len(seen)
            if len(stats["samples"]) < 8 and len(seen) % 97 == 1:
                stats["samples"].append(case)
        stats["channels"][case["channel"]] = stats["channels"].get(case["channel"], 0) + 1
        stats["known" if case["expect"] else "unknown"] += 1
        bad = oracle(case)
        if stats["execs"] % 2000 == 0 or bad:
            with open(stats_file, "w") as fh:
                json.dump(dict(stats, violation=bad[:1]), fh)
        if bad:
            raise RuntimeError("ORACLE " + bad[0][0] + " " + bad[0][1])

    atheris.Setup([argv[0], f"-artifact_prefix={artifact_dir}/"] + flags, one)
    atheris.Fuzz()


if __name__ == "__main__":
    main(sys.argv)
