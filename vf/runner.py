"""./check <ID> [--tier quick|thorough] [--replay FILE]

exit 0  property held on everything explored (KNOWN-FINDING lines possible)
exit 1  VIOLATION property=<id> replay=<path>
exit 2  harness error / inconclusive (never a violation)
"""
import argparse
import hashlib
import importlib
import json
import math
import multiprocessing as mp
import os
import re
import sys
import time
import traceback

ROOT = os.path.dirname(os.path.dirname(os.path.abspath(__file__)))


def _ensure_hypothesis():
    try:
        import hypothesis  # noqa
        return
    except ImportError:
        pass
    deps = os.path.join(ROOT, ".deps")
    if os.path.isdir(deps) and deps not in sys.path:
        sys.path.insert(0, deps)
        try:
            import hypothesis  # noqa
            return
        except ImportError:
            pass
    import subprocess
    subprocess.run([sys.executable, "-m", "pip", "install", "--no-index", "--find-links", "/opt/veriftools/wheels",
                    "--target", deps, "hypothesis"], check=False, capture_output=True)
    if deps not in sys.path:
        sys.path.insert(0, deps)
    import hypothesis  # noqa


def derive_seed(*parts):
    h = hashlib.sha256("/".join(str(p) for p in parts).encode()).digest()
    return int.from_bytes(h[:8], "big") % (2 ** 63)


def _task(args):
    pid, part_name, shard, nshards, n, steps, seed_value, tier, known = args
    os.environ["VERIF_TIER"] = tier
    try:  # kill -USR1 <pid> dumps the Python stack of a worker (diagnosis of slow cases)
        import faulthandler, signal
        faulthandler.register(signal.SIGUSR1, all_threads=True)
    except Exception:
        pass
    from . import core
    mod = importlib.import_module(f"vf.props.{pid.lower()}")
    part = {p.name: p for p in mod.parts(tier)}[part_name]
    stats = core.Stats()
    found = []
    err = None
    t0 = time.time()
    try:
        if part.kind == "hyp":
            core.run_hyp(pid, part, n, seed_value, stats, known, found)
        elif part.kind == "enum":
            core.run_enum(pid, part, shard, nshards, stats, known, found)
        elif part.kind == "machine":
            core.run_machine(pid, part, n, steps, seed_value, stats, known, found)
        elif part.kind == "custom":
            part.run(pid, part, n, seed_value, stats, known, found)
        else:
            raise core.HarnessError(f"unknown part kind {part.kind}")
    except core.HarnessError as exc:
        err = str(exc)
    except BaseException as exc:  # noqa
        err = "".join(traceback.format_exception(type(exc), exc, exc.__traceback__))[-4000:]
    return {"part": part_name, "shard": shard, "stats": stats.dump(), "found": found, "error": err,
            "wall": time.time() - t0}


def _sanitize(s):
    return re.sub(r"[^A-Za-z0-9_.-]+", "_", s)[:120]


def _run_case(pid, mod, tier, part_name, case):
    from . import core
    parts = {p.name: p for p in mod.parts(tier)}
    if part_name not in parts:
        raise core.HarnessError(f"unknown part {part_name} for {pid}")
    part = parts[part_name]
    if part.kind == "machine":
        return part, core.replay_machine(pid, part, case)
    return part, core.safe_check(pid, part, case)


def main(argv=None):
    ap = argparse.ArgumentParser()
    ap.add_argument("pid")
    ap.add_argument("--tier", default=os.environ.get("VERIF_TIER") or "quick", choices=["quick", "thorough"])
    ap.add_argument("--replay")
    ap.add_argument("--parts", default=os.environ.get("VERIF_PARTS", ""))
    a = ap.parse_args(argv)
    pid = a.pid.upper()
    tier = a.tier
    os.environ["VERIF_TIER"] = tier
    try:
        seed = int(os.environ.get("VERIF_SEED", "1") or "1")
    except ValueError:
        seed = 1
    nshards = int(os.environ.get("VERIF_SHARDS", "16"))
    scale = float(os.environ.get("VERIF_SCALE", "1"))
    t0 = time.time()

    os.chdir(ROOT)
    try:
        _ensure_hypothesis()
        from . import lib, core, findings
        mod = importlib.import_module(f"vf.props.{pid.lower()}")
    except SystemExit:
        raise
    except BaseException as exc:  # noqa
        traceback.print_exc()
        print(f"HARNESS-ERROR property={pid} cannot import: {exc}")
        return 2

    known = findings.load(pid)

    # ------------------------------------------------------------------ replay
    if a.replay:
        with open(a.replay, encoding="utf-8") as fh:
            doc = json.load(fh)
        try:
            part, res = _run_case(pid, mod, tier, doc["part"], doc["case"])
        except core.HarnessError as exc:
            print(f"HARNESS-ERROR property={pid} {exc}")
            return 2
        rc = 0
        for v in res.violations:
            if v.key in known:
                print(f"KNOWN-FINDING: property={pid} {known[v.key]} [key={v.key}]")
            else:
                print(f"violation key={v.key}: {v.msg}")
                print(f"VIOLATION property={pid} replay={a.replay}")
                rc = 1
        if rc == 0:
            print(f"replay of {a.replay}: no violation")
        return rc

    # ------------------------------------------------------------------ generated run
    parts = mod.parts(tier)
    if a.parts:
        want = set(a.parts.split(","))
        parts = [p for p in parts if p.name in want]
    tasks = []
    for p in parts:
        n_total = max(1, int(math.ceil(p.n[tier] * scale)))
        if p.kind == "enum":
            for s in range(nshards):
                tasks.append((pid, p.name, s, nshards, 0, None, 0, tier, dict(known)))
        else:
            # more, smaller shards than processes: evens out the very unequal cost of generated trajectory cases
            k = max(1, min(nshards * int(os.environ.get("VERIF_OVERSHARD", "4")), n_total // 25 or 1))
            if p.max_shards:
                k = min(k, p.max_shards)
            per = max(1, int(math.ceil(n_total / k)))
            for s in range(k):
                tasks.append((pid, p.name, s, k, per, p.steps.get(tier), derive_seed(seed, pid, p.name, s), tier,
                              dict(known)))

    merged = core.Stats()
    found = []
    errors = []

    # corpus (seconds-long replay tier, runs first, in the parent)
    cdir = os.path.join(ROOT, "corpus", pid)
    corpus_n = 0
    if os.path.isdir(cdir) and not a.parts:
        for fn in sorted(os.listdir(cdir)):
            if not fn.endswith(".json"):
                continue
            with open(os.path.join(cdir, fn), encoding="utf-8") as fh:
                doc = json.load(fh)
            try:
                part, res = _run_case(pid, mod, tier, doc["part"], doc["case"])
            except core.HarnessError as exc:
                errors.append(f"corpus {fn}: {exc}")
                continue
            corpus_n += 1
            res.labels.append("corpus")
            merged.record(part, doc["case"], res)
            for v in res.violations:
                if v.key in known:
                    merged.excluded[v.key] += 1
                else:
                    found.append({"part": part.name, "case": doc["case"], "corpus_file": fn, **v.as_dict()})

    budget = float(os.environ.get("VERIF_WATCHDOG_S", "3000" if tier == "quick" else "40000"))
    ctx = mp.get_context("fork")
    results = []
    nproc = int(os.environ.get("VERIF_PROCS", str(min(nshards, os.cpu_count() or 1))))
    pool = ctx.Pool(processes=nproc, maxtasksperchild=1)
    timed_out = False
    try:
        it = pool.imap_unordered(_task, tasks)
        while True:
            left = budget - (time.time() - t0)
            if left <= 0:
                timed_out = True
                break
            try:
                results.append(it.next(timeout=left))
            except StopIteration:
                break
            except mp.TimeoutError:
                timed_out = True
                break
    finally:
        pool.terminate()
        pool.join()

    part_wall = {}
    for r in results:
        st = r["stats"]
        merged.evaluations += st["evaluations"]
        merged.steps += st["steps"]
        merged.nontrivial.update(st["nontrivial"])
        for k, v in st["labels"].items():
            merged.labels[k] += v
        for k, v in st["excluded"].items():
            merged.excluded[k] += v
        for k, v in st["per_part"].items():
            merged.per_part[k] += v
        for k, v in st["max_target"].items():
            if k not in merged.max_target or v > merged.max_target[k]:
                merged.max_target[k] = v
        if len(merged.samples) < 12:
            merged.samples.extend(st["samples"][-1:])
        found.extend(r["found"])
        if r["error"]:
            errors.append(f"{r['part']}/shard{r['shard']}: {r['error']}")
        part_wall[r["part"]] = max(part_wall.get(r["part"], 0), r["wall"])
    # keep at least one sample per part where possible
    seen_parts = {s["part"] for s in merged.samples}
    for r in results:
        for s in r["stats"]["samples"]:
            if s["part"] not in seen_parts:
                merged.samples.append(s)
                seen_parts.add(s["part"])

    # distinct violations by key
    by_key = {}
    for f in found:
        by_key.setdefault(f["key"], f)

    OUT = os.environ.get("VERIF_OUT") or ROOT  # mutation runs redirect evidence/replays away from /verif
    os.makedirs(os.path.join(OUT, "replays"), exist_ok=True)
    os.makedirs(os.path.join(OUT, "evidence"), exist_ok=True)
    head = lib.repo_head()
    lines = []
    for key, f in sorted(by_key.items()):
        path = os.path.join("replays", f"{pid}-{_sanitize(key)}-s{seed}.json")
        with open(os.path.join(OUT, path), "w", encoding="utf-8") as fh:
            json.dump({"property": pid, "part": f["part"], "key": key, "message": f["message"],
                       "details": f["details"], "case": f["case"], "seed": seed, "tier": tier,
                       "repo_head": head}, fh, indent=1, default=str)
        lines.append((key, f["message"], path))

    wall = time.time() - t0
    samples = merged.samples[:16]
    if not samples:
        samples = [{"note": "no non-trivial case was generated in this run"}]
    coverage = {
        "evaluations": merged.evaluations,
        "distinct_nontrivial": len(merged.nontrivial),
        "rule": getattr(mod, "RULE", ""),
        "samples": samples,
        "classes": dict(sorted(merged.labels.items())),
        "per_part_evaluations": dict(merged.per_part),
        "excluded_known": dict(merged.excluded),
        "corpus_replayed": corpus_n,
        "exhaustive_parts": [p.name for p in parts if p.exhaustive],
        "exhaustive": False,
        "max_target_seen": merged.max_target,
        "history_steps": merged.steps,
        "shards": nshards,
        "backend": lib.BACKEND,
        "repo": lib.REPO,
        "repo_head": head,
        "part_wall_s": {k: round(v, 1) for k, v in part_wall.items()},
        "violation_keys": sorted(by_key),
        "harness_errors": errors[:5],
        "timed_out": timed_out,
    }
    ev = {
        "property_id": pid,
        "tier": tier,
        "seed": seed,
        "level": "exploration",
        "coverage": coverage,
        "assumptions": list(getattr(mod, "ASSUMPTIONS", [])) + [
            "pure-Python backend (py_ballisticcalc_exts not built in this sandbox)",
            "absence of a violation among generated cases is not a proof"],
        "wall_s": round(wall, 2),
        "violations": len(by_key),
    }
    if not a.parts:
        with open(os.path.join(OUT, "evidence", f"{pid}.json"), "w", encoding="utf-8") as fh:
            json.dump(ev, fh, indent=1, default=str)

    print(f"[{pid}] tier={tier} seed={seed} evaluations={merged.evaluations} "
          f"distinct_nontrivial={len(merged.nontrivial)} wall={wall:.1f}s backend={lib.BACKEND} head={head}")
    for k in sorted(merged.per_part):
        print(f"[{pid}]   part {k}: {merged.per_part[k]} cases, slowest shard {part_wall.get(k, 0):.1f}s")
    for key, text in sorted(known.items()):
        print(f"KNOWN-FINDING: property={pid} {text} [key={key} hits={merged.excluded.get(key, 0)}]")
    for key, msg, path in lines:
        print(f"violation key={key}: {msg[:400]}")
        print(f"VIOLATION property={pid} replay={path}")
    if lines:
        return 1
    if errors:
        for e in errors[:5]:
            print(f"HARNESS-ERROR property={pid} {e}")
        return 2
    if timed_out:
        print(f"INCONCLUSIVE property={pid} watchdog expired after {budget}s")
        return 2
    return 0


if __name__ == "__main__":
    sys.exit(main())
