"""case dict -> library objects (always explicit units), row snapshots, step traces, counting wrappers."""
import math

from . import lib

pb = lib.pb
Unit = pb.Unit
D, A, V, T, P, W = pb.Distance, pb.Angular, pb.Velocity, pb.Temperature, pb.Pressure, pb.Weight

NUM_COLS = ("time", "distance", "velocity", "mach", "height", "target_drop", "drop_adj", "windage", "windage_adj",
            "look_distance", "angle", "density_factor", "drag", "energy", "ogw")


def table_of(spec):
    t = spec["table"]
    if isinstance(t, str):
        return getattr(pb, t)
    return [{"Mach": m, "CD": c} for m, c in t["custom"]]


def drag_model(spec):
    kw = {}
    if spec.get("wdl"):
        w, d, l = spec["wdl"]
        # a zero entry = that argument is not given at all (partial bullet data)
        kw = {k: v for k, v, given in (("weight", W.Grain(w), w), ("diameter", D.Inch(d), d), ("length", D.Inch(l), l)) if given}
    if spec.get("mbc"):
        pts = [pb.BCPoint(bc, Mach=m) for bc, m in spec["mbc"]]
        return pb.DragModelMultiBC(pts, table_of(spec), **kw)
    return pb.DragModel(spec["bc"], table_of(spec), **kw)


def atmo(spec):
    a = spec.get("atmo") or {"kind": "icao", "alt": 0.0}
    k = a["kind"]
    if k == "icao":
        return pb.Atmo.icao(D.Foot(a["alt"]))
    if k == "vacuum":
        return pb.Vacuum(D.Foot(a["alt"]), T.Celsius(a.get("t_c", 15.0)))
    kw = {}
    if a.get("powder_t_c") is not None:
        kw["powder_t"] = T.Celsius(a["powder_t_c"])
    return pb.Atmo(D.Foot(a["alt"]), P.hPa(a["p_hpa"]), T.Celsius(a["t_c"]), a.get("hum", 0.0), **kw)


def winds(spec):
    ws = spec.get("winds")
    if ws is None:
        return None
    return [pb.Wind(V.FPS(s), A.Radian(d), D.Foot(u)) for s, d, u in ws]


def ammo(spec):
    dm = drag_model(spec)
    pw = spec.get("powder")
    if pw:
        return pb.Ammo(dm, V.FPS(spec["mv"]), T.Celsius(pw["t0_c"]), pw["mod"], True)
    return pb.Ammo(dm, V.FPS(spec["mv"]))


def shot(spec, **override):
    s = dict(spec, **override)
    weapon = pb.Weapon(D.Inch(s.get("sh", 0.0)), D.Inch(s.get("twist", 0.0)), A.Radian(s.get("zero", 0.0)))
    return pb.Shot(weapon, ammo(s), A.Radian(s.get("look", 0.0)), A.Radian(s.get("rel", 0.0)),
                   A.Radian(s.get("cant", 0.0)), atmo(s), winds(s))


PRIORS = ("fire-extra", "fire-subsonic", "zero", "raise")
_PAST_A = {"table": "TableG7", "bc": 0.3, "mv": 2700.0, "wdl": [168.0, 0.308, 1.2], "sh": 2.5, "twist": 10.0, "zero": 0.002, "look": 0.09,
           "rel": 0.004, "cant": 0.26, "atmo": {"kind": "icao", "alt": 2500.0}, "winds": [[15.0, 1.2, 100.0], [25.0, -2.0, 1e8]]}
_PAST_B = {"table": "TableG1", "bc": 0.16, "mv": 900.0, "wdl": [230.0, 0.452, 0.68], "sh": 1.2, "twist": -16.0, "zero": 0.0, "look": 0.0,
           "rel": 0.01, "cant": 0.0, "atmo": {"kind": "explicit", "alt": 300.0, "p_hpa": 990.0, "t_c": 28.0, "hum": 70.0}, "winds": None}


def calculator(config=None, prior=None):
    """a calculator of the given configuration; with `prior` it is not fresh: it has already computed for another, fixed shot
    (extra-data fire ending supersonic / plain fire of a subsonic load / a zeroing / a fire that ended in RangeError), which by
    C10 must not matter to anything computed afterwards"""
    calc = pb.Calculator(_config=dict(config)) if config else pb.Calculator()
    if prior:
        try:
            if prior == "fire-extra":
                calc.fire(shot(_PAST_A), D.Foot(300.0), D.Foot(75.0), extra_data=True, time_step=0.01)
            elif prior == "fire-subsonic":
                calc.fire(shot(_PAST_B), D.Foot(150.0), D.Foot(50.0))
            elif prior == "zero":
                calc.set_weapon_zero(shot(_PAST_A), D.Foot(200.0))
            elif prior == "raise":
                calc.fire(shot(_PAST_A, rel=-1.05), D.Foot(1.0e5), D.Foot(2.0e4))
            else:
                raise AssertionError(prior)
        except (pb.RangeError, pb.ZeroFindingError):
            pass
    return calc


def row_raw(row):
    """all 15 numeric columns as raw floats + flag"""
    return (row.time, row.distance.raw_value, row.velocity.raw_value, row.mach, row.height.raw_value,
            row.target_drop.raw_value, row.drop_adj.raw_value, row.windage.raw_value, row.windage_adj.raw_value,
            row.look_distance.raw_value, row.angle.raw_value, row.density_factor, row.drag, row.energy.raw_value,
            row.ogw.raw_value, int(row.flag))


def rows_raw(rows):
    return [row_raw(r) for r in rows]


def fire(calc, sh, range_ft, step_ft=None, extra=False, time_step=0.0):
    """-> (rows, error or None); RangeError is an expected outcome"""
    try:
        if step_ft is None:
            hit = calc.fire(sh, D.Foot(range_ft), extra_data=extra, time_step=time_step)
        else:
            hit = calc.fire(sh, D.Foot(range_ft), D.Foot(step_ft), extra_data=extra, time_step=time_step)
        return list(hit.trajectory), None
    except pb.RangeError as e:
        return list(e.incomplete_trajectory), e


class TracePoint:
    __slots__ = ("t", "x", "y", "w", "v", "mach", "angle", "flag", "row")

    def __init__(self, row):
        self.t = row.time
        self.x = row.distance.raw_value / 12.0
        self.y = row.height.raw_value / 12.0
        self.w = row.windage.raw_value / 12.0
        self.v = row.velocity.raw_value * 3.2808399
        self.mach = row.mach
        self.angle = row.angle.raw_value
        self.flag = int(row.flag)
        self.row = row


def trace(calc, sh, range_ft, extra=False):
    """Every integration point (loop-top states) through the public API: a huge record step and a tiny time step.
    -> ([TracePoint], error or None).  When the run ends in RangeError the last point is the terminal row."""
    rows, err = fire(calc, sh, range_ft, 1e9, extra=extra, time_step=1e-12)
    return [TracePoint(r) for r in rows], err


def counting(atmo_obj, budget=None):
    """turn atmo_obj into an instance of a dynamic subclass that counts (and optionally bounds) solver steps"""
    base = atmo_obj.__class__

    class StepBudgetExceeded(Exception):
        pass

    def get_density_factor_and_mach_for_altitude(self, altitude):
        self._vf_calls += 1
        if self._vf_budget is not None and self._vf_calls > self._vf_budget:
            raise StepBudgetExceeded(self._vf_calls)
        return base.get_density_factor_and_mach_for_altitude(self, altitude)

    sub = type("Counting" + base.__name__, (base,), {
        "get_density_factor_and_mach_for_altitude": get_density_factor_and_mach_for_altitude})
    atmo_obj.__class__ = sub
    atmo_obj._vf_calls = 0
    atmo_obj._vf_budget = budget
    return atmo_obj, StepBudgetExceeded


class NoProgress(BaseException):
    """raised by LineWatch inside the library frame that keeps running"""


class LineWatch:
    """Deterministic stand-in for a wall-clock watchdog.  While counting, every source line executed inside the package
    is counted (sys.settrace, library frames only); if `limit` lines go by without `progress()` (a monotone counter, e.g.
    the integration steps counted by `counting`) changing, NoProgress is raised inside the running library frame.
    With `arm_after_s` the counting only *starts* once the block has run that long (a timer signal attaches the tracer to
    the frames that are running then): the clock decides when to start looking, never the verdict."""

    def __init__(self, progress, limit=2_000_000, arm_after_s=None):
        self.progress, self.limit, self.arm_after_s = progress, limit, arm_after_s
        self.n = 0
        self.lines = 0
        self.armed = False

    def _tracers(self):
        import os
        import sys
        prefix = os.path.dirname(os.path.abspath(pb.__file__))

        def local(frame, event, arg):
            if event == "line":
                self.n += 1
                if self.n > self.limit:
                    self.lines += self.n
                    self.n = 0
                    now = self.progress()
                    if now == self.last:
                        sys.settrace(None)
                        raise NoProgress(f"{frame.f_code.co_filename}:{frame.f_lineno} in {frame.f_code.co_name}")
                    self.last = now
            return local

        def glob(frame, event, arg):
            return local if frame.f_code.co_filename.startswith(prefix) else None
        return prefix, local, glob

    def _arm(self, frame=None):
        import sys
        prefix, local, glob = self._tracers()
        self.last = self.progress()
        self.armed = True
        sys.settrace(glob)
        while frame is not None:          # frames already running (timer case)
            if frame.f_code.co_filename.startswith(prefix):
                frame.f_trace = local
            frame = frame.f_back

    def __enter__(self):
        import signal
        import sys
        self._sys = sys
        self.prev = sys.gettrace()
        if self.arm_after_s is None:
            self._arm()
        else:
            self._old_handler = signal.signal(signal.SIGALRM, lambda signum, frame: self._arm(frame))
            signal.setitimer(signal.ITIMER_REAL, self.arm_after_s)
        return self

    def __exit__(self, *exc):
        if self.arm_after_s is not None:
            import signal
            signal.setitimer(signal.ITIMER_REAL, 0)
            signal.signal(signal.SIGALRM, self._old_handler)
        self._sys.settrace(self.prev)
        self.lines += self.n
        return False


class CountingShot(pb.Shot):
    """counts how many integrations read the wind list (one read per _integrate run)"""
    _vf_reads = 0

    @property
    def winds(self):
        self._vf_reads += 1
        return pb.Shot.winds.fget(self)

    @winds.setter
    def winds(self, value):
        pb.Shot.winds.fset(self, value)


def counting_shot(spec, **override):
    s = dict(spec, **override)
    weapon = pb.Weapon(D.Inch(s.get("sh", 0.0)), D.Inch(s.get("twist", 0.0)), A.Radian(s.get("zero", 0.0)))
    return CountingShot(weapon, ammo(s), A.Radian(s.get("look", 0.0)), A.Radian(s.get("rel", 0.0)),
                        A.Radian(s.get("cant", 0.0)), atmo(s), winds(s))


def snapshot_shot(sh):
    """deep snapshot (raw magnitudes, scalars, table contents, wind list contents and order) of a Shot's argument graph"""
    dm = sh.ammo.dm
    return {
        "look": sh.look_angle.raw_value, "rel": sh.relative_angle.raw_value, "cant": sh.cant_angle.raw_value,
        "weapon": (sh.weapon.sight_height.raw_value, sh.weapon.twist.raw_value, sh.weapon.zero_elevation.raw_value),
        "ammo": (sh.ammo.mv.raw_value, sh.ammo.powder_temp.raw_value, sh.ammo.temp_modifier, sh.ammo.use_powder_sensitivity),
        "dm": (dm.BC, dm.weight.raw_value, dm.diameter.raw_value, dm.length.raw_value,
               tuple((p.Mach, p.CD) for p in dm.drag_table)),
        "atmo": (sh.atmo.altitude.raw_value, sh.atmo.pressure.raw_value, sh.atmo.temperature.raw_value,
                 sh.atmo.powder_temp.raw_value, sh.atmo.humidity, sh.atmo.density_ratio, sh.atmo._mach,
                 sh.atmo._a0, sh.atmo._t0, sh.atmo._p0),
        "winds": tuple((w.velocity.raw_value, w.direction_from.raw_value, w.until_distance.raw_value, w.MAX_DISTANCE_FEET)
                       for w in sh._winds),
    }
